"""C11 -- MEX gateway calls reach the right C++ code and never leak or double-free.

System S-mex (DESIGN.md section 4, C11).  Per *program*: a tape-generated interface in the
MATLAB-safe compilable profile -> the REAL MatlabWrapper generates the toolbox -> an
instrumented library is generated from the same model -> the generated <module>_wrapper.cpp
is compiled (ASan+UBSan) with the REAL matlab.h, the mock MEX runtime and the protocol
driver.  Per *history*: the simulated MATLAB session interprets the generated .m files and
issues a tape-driven sequence of constructions, method / static / free-function calls,
property accesses, deletions, library exceptions and unloads; after every step the trace,
the results and the ownership state are checked against the model.

  G1 right entity, right values    G2 result            G3 ill-formed calls are refused in .m
  G4 ownership (collectors, live-set, use counts)       G5 exception safety
  G6 unload releases everything    G7 sanitizer-clean
"""
import hashlib
import os
import pickle
import re
import shutil
import struct
import subprocess
import sys
import tempfile

from gen import mexprog as MP
from mexsim import session as S
from sim.tape import Tape, derive_seed

PROP = "C11"
VERIF = os.path.dirname(os.path.dirname(os.path.abspath(__file__)))
MEXSIM = os.path.join(VERIF, "mexsim")
REPO = os.environ.get("VERIF_REPO", "/repo")
PROBES = ["char_argument", "char_return", "class_name_shared_by_two_namespaces", "class_name_prefix_of_another", "non_virtual_class_with_parent",
          "derived_object_as_base_argument", "same_object_two_handles", "delete_base_chain", "exception_injected",
          "unload_clear_all", "returned_object_kept", "by_value_object_argument", "raw_pointer_argument",
          "shared_pointer_argument", "default_argument_omitted", "illformed_call_refused", "pair_return",
          "property_roundtrip", "inherited_method_called", "enum_argument", "enum_return",
          "retained_object_returned_twice", "calls_after_unload", "nonconst_reference_argument",
          "uint64_argument_above_2_53", "negative_int_result", "size_t_result_above_2_63", "class_typed_property_read", "class_typed_property_written",
          "template_instantiation_used", "library_retained_an_argument", "ambiguous_overload_shadowed"]


def batches(tier):
    if tier == "thorough":
        return [dict(name="hist", runs=60000, budget_s=1100, per_run_timeout=180),
                dict(name="thisargs", runs=600, budget_s=30, per_run_timeout=180),
                dict(name="stale", runs=600, budget_s=30, per_run_timeout=180)]
    return [dict(name="hist", runs=1600, budget_s=55, per_run_timeout=120),
            dict(name="thisargs", runs=48, budget_s=8, per_run_timeout=120),
            dict(name="stale", runs=48, budget_s=8, per_run_timeout=120)]


def nprograms(tier):
    return 48 if tier == "thorough" else 8


def describe():
    return {
        "rule": "programs: tape-generated interfaces (classes with virtual inheritance chains <= 3, overloaded "
                "constructors/methods/static methods/free functions in namespaces, trailing defaults, properties, "
                "class and namespace enums, arguments by value / const& / & / shared * / raw @, returns by value / "
                "shared pointer / pair) compiled into real gateways; histories: <= 60 session steps.  Non-trivial = "
                ">= 3 gateway calls reaching library entities or an injected exception or an unload; distinct = "
                "distinct sha256 of (program id, protocol transcript).",
        "probe_names": PROBES,
        "real_vs_stub": {
            "real": ["gtwrap MatlabWrapper from /repo working tree (toolbox generation)",
                     "generated <module>_wrapper.cpp and generated .m files", "matlab.h from /repo working tree",
                     "g++ 12 with -fsanitize=address,undefined"],
            "stub": ["MATLAB: a session that interprets the generated .m subset (mexsim/mfile.py, session.py)",
                     "mex.h / MEX runtime (mexsim/mex_runtime.cpp): errors are C++ unwinding, not longjmp",
                     "GTSAM Vector/Matrix/Point stand-ins", "the wrapped library: machine-generated, instrumented, "
                     "derived from the generator's model"]},
        "assumptions": [
            "program profile excludes what the generator cannot emit compilable code for on the pinned tree: "
            "shared-pointer-typed properties, templated free functions, `const string&` arguments, enums in free "
            "functions or foreign classes",
            "an overload is 'right' if it is declared under the called name and its parameter types accept the "
            "supplied MATLAB values (set-valued)",
            "errors raised by mexErrMsgTxt unwind as C++ exceptions in the mock; leaks that only a longjmp would "
            "cause are outside what is decided"],
        "side_observations": [
            "C05/C06 (N/A for this family): every `<module>_wrapper(id, ...)` call site reached by a history is "
            "executed against the dispatch table; disagreements would surface as G1 violations here"],
    }


# ---------------------------------------------------------------------------
# program build (prepare)
# ---------------------------------------------------------------------------
def _build_program(args):
    k, seed, tmp, repo = args
    d = os.path.join(tmp, "prog%d" % k if k >= 0 else "progT")
    os.makedirs(d)
    tape = Tape(seed=seed)
    force = [["chain", "overloads"], ["enum", "template", "samenames"], ["objargs", "plainchain"],
             ["chain", "objargs", "template"], ["plainchain", "overloads"], ["enum_nested", "chain", "samenames"],
             ["template", "overloads"], ["objargs", "template", "enum_nested"]][k % 8]
    feats = {"enums": True, "force": force}
    if k < 0:          # the `thisargs` program: class templates using `This` as argument / return everywhere
        feats = {"enums": True, "force": ["template", "template", "enum_nested", "uchar"], "this_args": True,
                 "class_enum_nested": True, "plain_derive": False, "ref_returns": False, "static_void": False, "shuffle_functions": False, "untidy_layout": False, "char_types": False, "enum_overloads": False,
                 "twin_inner_ns": False}
    prog, itext, lib = MP.generate(tape, feats)
    open(os.path.join(d, "prog.i"), "w").write(itext)
    open(os.path.join(d, "lib.h"), "w").write(lib)
    # the real generator, in a separate interpreter so that nothing leaks between programs
    code = ("import sys, os; sys.path.insert(0, %r);\n"
            "import gtwrap.matlab_wrapper.wrapper as W\n"
            "tpl = os.path.join(os.path.dirname(os.path.realpath(W.__file__)), 'matlab_wrapper.tpl')\n"
            "made = False\n"
            "if not os.path.exists(tpl):\n"
            "    import builtins; _o = builtins.open\n"
            "    def _open(p, *a, **k):\n"
            "        import io\n"
            "        if str(p) == tpl: return io.StringIO('#include <gtwrap/matlab.h>\\n#include <map>\\n')\n"
            "        return _o(p, *a, **k)\n"
            "    W.open = _open\n"
            "w = W.MatlabWrapper(module_name='prog', top_module_namespace=[''], ignore_classes=[''])\n"
            "w.wrap([%r], path=%r)\n") % (repo, os.path.join(d, "prog.i"), os.path.join(d, "tb"))
    p = subprocess.run([sys.executable, "-c", code], capture_output=True, text=True)
    info = {"k": k, "dir": d, "seed": seed, "interface": itext}
    if p.returncode:
        info["gen_error"] = p.stderr[-1500:]
        return info, None
    wrapper = open(os.path.join(d, "tb", "prog_wrapper.cpp")).read()
    names = re.findall(r"static Collector_(\w+) collector_(\w+);", wrapper)
    with open(os.path.join(d, "collectors.inc"), "w") as f:
        for _, n in names:
            f.write('{"%s", []() -> size_t { return collector_%s.size(); }},\n' % (n, n))
    inc = os.path.join(d, "inc", "gtwrap")
    os.makedirs(inc)
    shutil.copy(os.path.join(repo, "matlab.h"), os.path.join(inc, "matlab.h"))
    cmd = ["g++", "-std=gnu++17", "-O0", "-g", "-w", "-fsanitize=address,undefined", "-fno-omit-frame-pointer",
           "-I", os.path.join(d, "inc"), "-I", d, "-I", os.path.join(MEXSIM, "include"),
           "-I", os.path.join(MEXSIM, "standins"),
           "-DWRAPPER_FILE=\"%s\"" % os.path.join(d, "tb", "prog_wrapper.cpp"),
           "-DCOLLECTORS_FILE=\"%s\"" % os.path.join(d, "collectors.inc"),
           "-o", os.path.join(d, "drv"), os.path.join(MEXSIM, "driver_gateway.cpp"),
           os.path.join(MEXSIM, "mex_runtime.cpp")]
    c = subprocess.run(cmd, capture_output=True, text=True)
    if c.returncode:
        info["compile_error"] = "\n".join(ln for ln in c.stderr.splitlines() if "error" in ln)[:2000]
    files = {}
    tb = os.path.join(d, "tb")
    for dp, _, fns in os.walk(tb):
        for fn in fns:
            if fn.endswith(".m"):
                files[os.path.relpath(os.path.join(dp, fn), tb)] = open(os.path.join(dp, fn)).read()
    info["files"] = files
    info["drv"] = os.path.join(d, "drv")
    return info, prog


def prepare(tier, seed):
    import concurrent.futures
    import multiprocessing
    tmp = tempfile.mkdtemp(prefix="verif-c11-")
    n = nprograms(tier)
    jobs = [(k, derive_seed(seed, "C11/program", k), tmp, REPO) for k in range(n)]
    jobs.append((-1, derive_seed(seed, "C11/program", 1000), tmp, REPO))
    progs = []
    try:
        with concurrent.futures.ProcessPoolExecutor(max_workers=16,
                                                    mp_context=multiprocessing.get_context("fork")) as ex:
            for info, prog in ex.map(_build_program, jobs):
                info["model"] = prog
                progs.append(info)
    except Exception:
        shutil.rmtree(tmp, ignore_errors=True)
        raise
    for info in progs:
        if "gen_error" in info:
            shutil.rmtree(tmp, ignore_errors=True)
            raise RuntimeError("program %d left the profile (MatlabWrapper raised): %s\n%s" %
                               (info["k"], info["gen_error"], info["interface"]))
        ce = info.get("compile_error", "")
        if ce and re.search(r"['\u2018](mx|mex)\w+['\u2019] was not declared", ce):
            shutil.rmtree(tmp, ignore_errors=True)
            raise RuntimeError("the generated gateway uses MEX API the mock lacks: " + ce[:500])
        if ce and (any(re.search(r"/lib\.h:\d+", ln) for ln in ce.splitlines() if "error" in ln) or
                   all(re.search(r"(driver_gateway\.cpp|mex_runtime\.cpp|mexsim/)", ln)
                       for ln in ce.splitlines() if "error" in ln)):
            # the instrumented library (generated from the model) or the driver does not compile on its
            # own: a defect of the harness, never a verdict about the gateway
            shutil.rmtree(tmp, ignore_errors=True)
            raise RuntimeError("the harness's own C++ does not compile (program %d): %s" % (info["k"], ce[:800]))
    special = [p for p in progs if p["k"] < 0]
    return {"tmp": tmp, "programs": [p for p in progs if p["k"] >= 0], "thisargs": special[0]}


def cleanup(ctx):
    if ctx:
        shutil.rmtree(ctx["tmp"], ignore_errors=True)


# ---------------------------------------------------------------------------
# model helpers
# ---------------------------------------------------------------------------
def camel(qname):
    return qname.replace("::", "")


def mname(qname):
    return qname.replace("::", ".")


class Tracker:
    """expected ownership state"""

    def __init__(self, prog):
        self.prog = prog
        self.serial = {}        # oid -> designated library serial
        self.retained = set()   # serials the library itself keeps


class Hist:
    def __init__(self, tape, info):
        self.t = tape
        self.info = info
        self.prog = info["model"]
        self.viol = []
        self.probes = {}
        self.steps = []
        self.entity_calls = 0
        self.by_entity = {}
        for c in self.prog.classes:
            for f in c.ctors + c.methods + c.statics:
                self.by_entity[f.entity] = (c, f)
        for ns, f in self.prog.functions:
            self.by_entity[f.entity] = (None, f)
        self.tr = Tracker(self.prog)
        self.copies = {}        # serial -> serial it was copied from
        self.members = {}       # serial -> serials of its class-typed data members
        self.state_fps = set()  # fingerprints of (collector sizes, live classes, retained) after each step
        self.retained_on = False
        self.unloaded_since_call = False

    def pr(self, name):
        self.probes[name] = self.probes.get(name, 0) + 1

    def add(self, inv, sig, detail):
        if len(self.viol) < 6:
            self.viol.append({"inv": inv, "sig": sig, "detail": detail + " | step %d: %s" %
                              (len(self.steps), self.steps[-1] if self.steps else "-")})

    # -- values --------------------------------------------------------------------------
    def live_objects_of(self, q):
        out = []
        for o in self.s.objects.values():
            c = self.prog.class_by_q(o.cls.replace(".", "::"))
            if c is not None and self.prog.isa(c, q):
                out.append(o)
        return sorted(out, key=lambda o: o.oid)

    def gen_value(self, ty):
        """-> (MATLAB value, expected trace encoding predicate data) or None if impossible now"""
        t = self.t
        if ty.kind == "prim":
            if ty.name == "int":
                v = t.pick([0, 1, 7, -3, 42, 100000], "int-val")
                if t.bool(0.2, "fractional-for-int"):
                    return S.MDouble.scalar(v + 0.5), "i:%d" % int(v + 0.5)
                if t.bool(0.15, "int32-for-int"):
                    return S.MInt("int32", v), "i:%d" % v
                return S.MDouble.scalar(v), "i:%d" % v
            if ty.name == "size_t":
                if t.bool(0.3, "uint64-for-size_t"):
                    # MATLAB integer arrays (e.g. GTSAM keys) are numeric too and must arrive exactly
                    v = t.pick([7, 9007199254740993, 8646911284551352321, 18446744073709551615, 4294967296],
                               "u64-val")
                    self.pr("uint64_argument_above_2_53")
                    return S.MInt("uint64", v), "z:%d" % v
                v = t.pick([0, 1, 9, 77, 4096], "size-val")
                return S.MDouble.scalar(v), "z:%d" % v
            if ty.name == "double":
                v = t.pick([0.0, 1.5, -2.25, 3.0, 1e10, -0.0], "dbl-val")
                return S.MDouble.scalar(v), "d:" + struct.pack("<d", v).hex()
            if ty.name == "bool":
                v = t.bool(0.5, "bool-val")
                return S.MLogical(v), "b:%d" % v
            if ty.name == "unsigned char":
                v = t.pick([0, 7, 200, 255], "uchar-val")
                return S.MInt("uint8", v), "u:%d" % v
            if ty.name == "char":
                v = t.pick(["a", "Z", "0", " ", "~"], "char-val")
                self.pr("char_argument")
                return S.MChar(v), "c:%d" % ord(v)
            if ty.name == "string":
                v = t.pick(["", "a", "hello world", "x,y;z"], "str-val")
                return S.MChar(v), "s:" + v.encode().hex()
        if ty.kind == "eig":
            if ty.name == "Matrix":
                m, n = t.pick([(1, 1), (2, 3), (3, 2), (0, 0), (2, 2)], "mat-dims")
                vals = [float(t.choose(50, "mat-el")) + 0.5 for _ in range(m * n)]     # row-major A(i,j)
                col = [vals[i * n + j] for j in range(n) for i in range(m)]
                return S.MDouble(m, n, col), "M:%d:%d" % (m, n) + "".join(":" + struct.pack("<d", x).hex() for x in vals)
            n = {"Point2": 2, "Point3": 3}.get(ty.name) or t.pick([1, 3, 0, 4], "vec-n")
            vals = [float(t.choose(50, "vec-el")) + 0.25 for _ in range(n)]
            return S.MDouble(n, 1, vals), "V:%d" % n + "".join(":" + struct.pack("<d", x).hex() for x in vals)
        if ty.kind == "enum":
            e = [x for x in self.prog.enums if x.qname == ty.name][0]
            v = t.choose(len(e.values), "enum-val")
            if e.mname not in self.s.classes:
                # the toolbox has no classdef under the enum's MATLAB name: a session cannot even write the value
                self.add("G1", "G1:class-enum-package-misplaced", "no enumeration classdef %s in the toolbox (have: %s)"
                         % (e.mname, sorted(k for k, c in self.s.classes.items() if c.enum_members)))
                return None
            self.pr("enum_argument")
            return S.MEnum(e.mname, v), "e:%d" % v
        if ty.kind == "class":
            cands = self.live_objects_of(ty.name)
            if not cands:
                return None
            o = t.pick(cands, "obj-arg")
            if o.cls.replace(".", "::") != ty.name:
                self.pr("derived_object_as_base_argument")
            if ty.mode == "val":
                self.pr("by_value_object_argument")
                return o, ("copy-of", self.tr.serial[o.oid])
            if ty.mode == "rptr":
                self.pr("raw_pointer_argument")
            elif ty.mode == "sptr":
                self.pr("shared_pointer_argument")
            elif ty.mode == "ref":
                self.pr("nonconst_reference_argument")
            return o, "o:%d" % self.tr.serial[o.oid]
        return None

    def compatible(self, v, ty):
        if ty.kind == "prim":
            if ty.name in ("int", "size_t"):
                return isinstance(v, (S.MDouble, S.MInt, S.MEnum, S.MArrayRef))
            if ty.name == "double":
                return isinstance(v, S.MDouble)
            if ty.name == "bool":
                return isinstance(v, S.MLogical)
            if ty.name == "string":
                return isinstance(v, S.MChar)
            if ty.name == "char":
                return isinstance(v, S.MChar) and len(v.s) == 1
            if ty.name == "unsigned char":
                return isinstance(v, S.MInt) and v.kind == "uint8"
        if ty.kind == "eig":
            # a Vector is a column, a Point2/Point3 a 2x1 / 3x1 column; any real double array is a Matrix
            if not isinstance(v, S.MDouble):
                return False
            want = {"Vector": (None, 1), "Point2": (2, 1), "Point3": (3, 1)}.get(ty.name)
            if want is None:
                return True
            m, n = v.dims()
            return n == want[1] and (want[0] is None or m == want[0])
        if ty.kind == "enum":
            if not isinstance(v, S.MEnum):
                return False
            en = [x for x in self.prog.enums if x.qname == ty.name]
            return not en or v.cls == en[0].mname        # a member of THIS enumeration
        if ty.kind == "class":
            return isinstance(v, S.MObject) and any(
                a == mname(ty.name) for a in self.s.ancestors(v.cls))
        return False

    def shadowed(self, family, f, vals):
        """MATLAB dispatches to the FIRST overload whose guard accepts the values.  The guards only look at
        the MATLAB class (isa numeric / double / ...), so another overload of the family may capture values
        meant for `f` and then fail to convert them (a 2x1 double given to `int`).  Such a call is not a
        well-defined request for `f`; its outcome is not judged."""
        for g in family:
            if g is f:
                continue
            nd = 0
            for a in reversed(g.args):
                if a.default is None:
                    break
                nd += 1
            if len(g.args) - nd <= len(vals) <= len(g.args) and \
                    all(self.guard_accepts(v, a.ty) for v, a in zip(vals, g.args)):
                return True
        return False

    def guard_accepts(self, v, ty):
        """what a class-and-shape guard in MATLAB can tell: a `char` parameter's guard sees a char array of any
        length (only the conversion insists on one character)"""
        if ty.kind == "prim" and ty.name == "char":
            return isinstance(v, S.MChar)
        return self.compatible(v, ty)

    # -- trace handling ----------------------------------------------------------------------
    def absorb_trace(self):
        evs = []
        acc, self.s.trace_acc = self.s.trace_acc, []
        for e in acc:
            if e["entity"] == "copy":
                self.copies[e["self"]] = int(e["args"][0])
            elif e["entity"] == "own":
                self.members.setdefault(e["self"], set()).add(int(e["args"][0]))
            else:
                evs.append(e)
        return evs

    def is_copy_of(self, serial, origin):
        seen = 0
        while serial in self.copies and seen < 50:
            serial = self.copies[serial]
            if serial == origin:
                return True
            seen += 1
        return False

    def check_args(self, ev, f, supplied_exp, what):
        """supplied_exp: expected encodings for the supplied leading args"""
        exp = list(supplied_exp)
        for a in f.args[len(supplied_exp):]:
            if a.default is None:
                self.add("G1", "G1:arity", "%s ran %s with %d supplied arguments but parameter %s has no default"
                         % (what, ev["entity"], len(supplied_exp), a.name))
                return
            dv = a.default[1]
            n = a.ty.name
            exp.append({"int": "i:%d" % dv if n == "int" else None, "size_t": "z:%d" % dv if n == "size_t" else None,
                        "double": "d:" + struct.pack("<d", float(dv)).hex() if n == "double" else None,
                        "bool": "b:%d" % dv if n == "bool" else None,
                        "string": "s:" + str(dv).encode().hex() if n == "string" else None}[n])
            self.pr("default_argument_omitted")
        got = ev["args"]
        if len(got) != len(exp):
            self.add("G1", "G1:argcount", "%s: entity %s received %d arguments, expected %d" %
                     (what, ev["entity"], len(got), len(exp)))
            return
        for i, (g, x) in enumerate(zip(got, exp)):
            if x is None:
                continue
            if isinstance(x, tuple):        # by-value object: a copy of the designated object
                if not (g.startswith("o:") and g[2:].lstrip("-").isdigit() and
                        self.is_copy_of(int(g[2:]), x[1])):
                    self.add("G1", "G1:argvalue:object-copy", "%s: argument %d of %s is %s, expected a copy of object #%d"
                             % (what, i + 1, ev["entity"], g, x[1]))
            elif g != x:
                kind = "object" if x.startswith("o:") else "value"
                self.add("G1", "G1:argvalue:%s" % kind, "%s: argument %d (%s) of %s received %s, supplied %s" %
                         (what, i + 1, f.args[i].name, ev["entity"], g, x))

    def check_result(self, ev, f, outs, what):
        ret = f.ret
        parts = [ret] if not isinstance(ret, tuple) else [ret[1], ret[2]]
        rets = [ev["ret"]] if not isinstance(ret, tuple) else \
            [ev["ret"].split(" P2=")[0][3:], ev["ret"].split(" P2=")[1]]
        if isinstance(ret, tuple):
            self.pr("pair_return")
        if not isinstance(ret, tuple) and ret.kind == "prim" and ret.name == "void":
            if any(o is not None for o in outs):
                self.add("G2", "G2:void-returned-value", "%s: void entity %s returned %r" % (what, ev["entity"], outs))
            return
        if len(outs) < len(parts):
            self.add("G2", "G2:missing-output", "%s: %d outputs for %d declared results" % (what, len(outs), len(parts)))
            return
        for ty, r, o in zip(parts, rets, outs):
            self.check_one_result(ty, r, o, ev, what)

    def check_one_result(self, ty, r, o, ev, what):
        def bad(why):
            self.add("G2", "G2:result:%s" % ty.kind, "%s: result of %s is %r, the entity returned %s (%s)" %
                     (what, ev["entity"], o, r, why))
        if ty.kind == "prim":
            if ty.name in ("int", "size_t", "bool"):
                if not isinstance(o, S.MArrayRef) and not isinstance(o, (S.MDouble, S.MInt, S.MLogical)):
                    return bad("not numeric")
                if isinstance(o, S.MArrayRef):
                    # the number MATLAB sees: the array's bytes read by the array's class (any integer class that
                    # holds the value is as good as another; the same bits under a class of the other signedness
                    # are another number)
                    val = o.scalar()
                    self.s.simple("free %d" % o.slot, "ok")
                else:
                    val = self.s.num(o)
                want = int(r[2:])
                if want < 0:
                    self.pr("negative_int_result")
                if want >= 1 << 63:
                    self.pr("size_t_result_above_2_63")
                if ty.name == "bool" and val is not None:
                    val, want = int(bool(val)), int(bool(want))
                if val != want:
                    bad("MATLAB sees %r, the C++ result is %r" % (val, want))
            elif ty.name == "char":
                # today a char comes back in the low byte of a 1x1 unsigned array; a MATLAB char would be as right
                if isinstance(o, S.MChar):
                    val = ord(o.s[0]) if len(o.s) == 1 else None
                elif isinstance(o, S.MArrayRef):
                    val = o.scalar()
                    self.s.simple("free %d" % o.slot, "ok")
                else:
                    val = self.s.num(o)
                self.pr("char_return")
                if val is None or (int(val) & 0xFF) != (int(r[2:]) & 0xFF):
                    bad("char value %r != %r" % (val, r))
            elif ty.name == "double":
                if not (isinstance(o, S.MDouble) and o.dims() == (1, 1) and
                        struct.pack("<d", o.data[0]).hex() == r[2:]):
                    bad("double differs")
            elif ty.name == "string":
                if not (isinstance(o, S.MChar) and o.s.encode("latin-1").hex() == r[2:]):
                    bad("string differs")
        elif ty.kind == "eig":
            f = r.split(":")
            if ty.name == "Matrix":
                m, n = int(f[1]), int(f[2])
                vals = f[3:]
                col = [vals[i * n + j] for j in range(n) for i in range(m)]
                if not (isinstance(o, S.MDouble) and o.dims() == (m, n) and
                        [struct.pack("<d", x).hex() for x in o.data] == col):
                    bad("matrix differs")
            else:
                n = int(f[1])
                if not (isinstance(o, S.MDouble) and o.dims() == (n, 1) and
                        [struct.pack("<d", x).hex() for x in o.data] == f[2:]):
                    bad("vector differs")
        elif ty.kind == "enum":
            self.pr("enum_return")
            e = [x for x in self.prog.enums if x.qname == ty.name][0]
            if not (isinstance(o, S.MEnum) and o.cls == e.mname and "e:%d" % o.v == r):
                bad("enum differs")
        elif ty.kind == "class":
            if not isinstance(o, S.MObject):
                return bad("not an object")
            want_cls = mname(ty.name)
            if o.cls != want_cls:
                bad("MATLAB class %s, declared %s" % (o.cls, want_cls))
            if not r.startswith("o:") or not r[2:].isdigit():
                return bad("entity returned no object")
            rs = int(r[2:])
            who = self.s.whois(o, "ptr_" + camel(ty.name))
            if who is None:
                return bad("returned object has no handle")
            if ty.mode == "sptr":
                if who[0] != rs:
                    bad("handle designates #%d" % who[0])
                if o.oid in self.tr.serial and self.tr.serial[o.oid] != who[0]:
                    bad("same MATLAB object re-bound")
            else:
                if not (who[0] == rs or self.is_copy_of(who[0], rs)):
                    bad("handle designates #%d which is not a copy of the returned object" % who[0])
            self.tr.serial[o.oid] = who[0]
            self.pr("returned_object_kept")

    # -- ownership -------------------------------------------------------------------------
    def check_ownership(self, after):
        st = self.s.last_state
        exp_coll = {}
        for o in self.s.objects.values():
            for p in o.ptrs:
                exp_coll[p[4:]] = exp_coll.get(p[4:], 0) + 1
        # The collectors are found by name in the generated C++ (`static Collector_X collector_X;`) and matched
        # with the `ptr_X` properties of the .m proxies.  If a tree names them differently the per-class
        # comparison is not possible: then only the totals are compared (or nothing, if no collector was
        # found at all) -- the library-side live set below does not depend on any name.
        if st["coll"] and all(name in st["coll"] for name in exp_coll):
            for name, n in sorted(st["coll"].items()):
                if n != exp_coll.get(name, 0):
                    self.add("G4", "G4:collector:%s" % ("leak" if n > exp_coll.get(name, 0) else "missing"),
                             "after %s: collector_%s holds %d handles, %d live MATLAB objects carry ptr_%s" %
                             (after, name, n, exp_coll.get(name, 0), name))
                    return False
        elif st["coll"]:
            self.pr("collector_names_not_matched")
            have, want_n = sum(st["coll"].values()), sum(exp_coll.values())
            if have != want_n:
                self.add("G4", "G4:collector:%s" % ("leak" if have > want_n else "missing"),
                         "after %s: the collectors hold %d handles in total, live MATLAB objects carry %d" %
                         (after, have, want_n))
                return False
        else:
            self.pr("collectors_unobservable")
        designated = {}
        for o in self.s.objects.values():
            if o.oid in self.tr.serial:
                designated[self.tr.serial[o.oid]] = designated.get(self.tr.serial[o.oid], 0) + len(o.ptrs)
        live = set(st["live"])
        want = self.with_members(set(designated) | self.tr.retained)
        if live != want:
            lost = sorted(want - live)
            leaked = sorted(live - want)
            self.add("G4", "G4:live-set:%s" % ("destroyed-while-referenced" if lost else "leak"),
                     "after %s: library live objects %s, expected %s (destroyed though referenced: %s; leaked: %s)" %
                     (after, sorted(live), sorted(want), lost, leaked))
            return False
        if st["dd"]:
            self.add("G4", "G4:double-destroy", "after %s: an object was destroyed twice" % after)
            return False
        return True

    def with_members(self, serials):
        """class-typed data members live inside (and die with) their owners"""
        want = set(serials)
        todo = list(want)
        while todo:
            for mser in self.members.get(todo.pop(), ()):
                if mser not in want:
                    want.add(mser)
                    todo.append(mser)
        return want

    def check_use_counts(self):
        cnt = {}
        for o in self.s.objects.values():
            if o.oid in self.tr.serial:
                cnt[self.tr.serial[o.oid]] = cnt.get(self.tr.serial[o.oid], 0) + len(o.ptrs)
        for o in sorted(self.s.objects.values(), key=lambda x: x.oid):
            if o.oid not in self.tr.serial or not o.ptrs:
                continue
            p = sorted(o.ptrs)[0]
            who = self.s.whois(o, p)
            if who is None or who[0] != self.tr.serial[o.oid]:
                self.add("G4", "G4:handle-identity", "%r.%s designates %s, expected #%d" % (o, p, who, self.tr.serial[o.oid]))
                return
            exp = cnt[who[0]] + (1 if who[0] in self.tr.retained else 0)
            if who[1] != exp:
                self.add("G4", "G4:use-count", "%r: use_count %d, expected %d (handles of MATLAB objects%s)" %
                         (o, who[1], exp, " + library" if who[0] in self.tr.retained else ""))
                return

    # -- steps ----------------------------------------------------------------------------------
    def run(self, drv_path):
        env = dict(os.environ)
        env["ASAN_OPTIONS"] = "detect_leaks=0:abort_on_error=0:exitcode=99:allocator_may_return_null=1"
        env["UBSAN_OPTIONS"] = "print_stacktrace=0:halt_on_error=1:exitcode=98"
        self.s = S.Session(drv_path, self.info["files"], "prog_wrapper", env=env)
        crashed = None
        try:
            n = 8 + self.t.choose(52, "n-steps")
            if self.stale_mode:
                n = 3 + self.t.choose(10, "n-steps")
            for _ in range(n):
                if self.viol:
                    break
                self.step()
            if not self.viol and self.stale_mode:
                self.stale_delete()
            elif not self.viol:
                self.final_unload()
        except S.DriverDied as e:
            crashed = e
        except S.ProtocolFailure as e:
            self.s.close()
            return {"harness": "protocol", "detail": str(e) + " | " + " ; ".join(self.s.log[-6:])}
        rc, err = (crashed.rc, crashed.stderr) if crashed else self.s.close()
        if self.in_stale_delete and (crashed is not None or "AddressSanitizer" in err):
            m = re.search(r"AddressSanitizer: ([a-z\-]+)", err)
            self.viol.insert(0, {"inv": "G4", "sig": "G4:stale-handle-delete-after-unload",
                                 "detail": "`clear mex` with %d live MATLAB objects emptied the collectors; deleting one of the "
                                           "surviving objects afterwards freed its handle a second time (%s) at `%s`" %
                                           (self.stale_objects, m.group(1) if m else "driver died", self.steps[-1])})
        elif crashed is not None or rc not in (0, None) or "ERROR: AddressSanitizer" in err or "runtime error:" in err:
            first = [ln for ln in err.splitlines() if "ERROR" in ln or "runtime error" in ln or "MEXSIM-FATAL" in ln][:1]
            kind = "asan" if "AddressSanitizer" in err else ("ubsan" if "runtime error" in err else
                                                            ("mexsim-fatal" if "MEXSIM-FATAL" in err else "crash"))
            m = re.search(r"AddressSanitizer: ([a-z\-]+)", err)
            self.viol.insert(0, {"inv": "G7", "sig": "G7:%s:%s" % (kind, m.group(1) if m else "-"),
                                 "detail": "the gateway process failed (rc=%s) at step %d `%s`: %s" %
                                           (rc, len(self.steps), self.steps[-1] if self.steps else "-",
                                            (first or [err[-300:]])[0][:300])})
        return None

    def pick_class(self, with_ctor=False):
        cl = [c for c in self.prog.classes if (c.ctors or not with_ctor)]
        return self.t.pick(cl, "class") if cl else None

    def step(self):
        t = self.t
        objs = sorted(self.s.objects.values(), key=lambda o: o.oid)
        choices = [("construct", 5), ("construct-bad", 0.7)]
        if objs:
            choices += [("method", 6), ("delete", 2), ("getprop", 1), ("setprop", 1), ("method-bad", 0.5)]
        choices += [("static", 2), ("func", 2), ("throw", 0.6), ("retained", 0.4), ("unload", 0.3)]
        op = t.wpick(choices, "op")
        if len(objs) > 12 and op == "construct":
            op = "delete"
        getattr(self, "op_" + op.replace("-", "_"))(objs)

    # .. construct ..
    def supplied(self, f):
        """choose how many trailing defaulted args to omit and build values; -> (values, expected) or None"""
        nd = 0
        for a in reversed(f.args):
            if a.default is None:
                break
            nd += 1
        k = len(f.args) - (self.t.choose(nd + 1, "omit-defaults") if nd else 0)
        vals, exp = [], []
        for a in f.args[:k]:
            g = self.gen_value(a.ty)
            if g is None:
                return None
            vals.append(g[0])
            exp.append(g[1])
        return vals, exp

    def op_construct(self, objs):
        c = self.pick_class(with_ctor=True)
        if c is None:
            return
        f = self.t.pick(c.ctors, "ctor")
        sup = self.supplied(f)
        if sup is None:
            return
        vals, exp = sup
        self.steps.append("construct %s(%s)" % (mname(c.qname), ", ".join(map(repr, vals))))
        shorts = [k.name for k in self.prog.classes]
        if shorts.count(c.name) > 1:
            self.pr("class_name_shared_by_two_namespaces")
        if any(o is not c and o.name.startswith(c.name) and o.ns == c.ns for o in self.prog.classes):
            self.pr("class_name_prefix_of_another")
        if c.parent and not c.virtual:
            self.pr("non_virtual_class_with_parent")
        before = set(self.s.objects)
        try:
            obj = self.s.construct(mname(c.qname), vals)
        except S.MatlabError as e:
            if self.expect_throw and e.from_mex and "injected failure" in e.msg:
                return self.after_exception(e)
            if self.expect_throw:
                self.expect_throw = False
                self.s.simple("throw_at 0", "ok")
            if e.from_mex and self.shadowed(c.ctors, f, vals):
                self.pr("ambiguous_overload_shadowed")
                self.absorb_trace()
                return
            self.add("G1", "G1:wellformed-call-refused", "well-typed constructor call raised: %s" % e.msg)
            return
        if self.expect_throw:
            self.expect_throw = False
            self.add("G5", "G5:exception-swallowed", "constructing %s succeeded although the library threw" % c.qname)
            return
        evs = self.absorb_trace()
        self.account_entity_events(evs)
        ctor_evs = [e for e in evs if e["entity"] in self.by_entity and self.by_entity[e["entity"]][1].kind == "ctor"]
        if len(ctor_evs) != 1 or len(evs) != 1:
            self.add("G1", "G1:entity-count", "constructing %s ran %d library entities: %s" %
                     (c.qname, len(evs), [e["entity"] for e in evs]))
            return
        ev = ctor_evs[0]
        ec, ef = self.by_entity[ev["entity"]]
        if getattr(c, "tpl", None) is not None:
            self.pr("template_instantiation_used")
        if ec is not c:
            self.add("G1", "G1:wrong-class", "constructing %s ran the constructor of %s" % (c.qname, ec.qname))
            return
        if not (len(vals) <= len(ef.args) and all(self.compatible(v, a.ty) for v, a in zip(vals, ef.args))):
            self.add("G1", "G1:wrong-overload", "constructing %s with %r ran overload %s" % (c.qname, vals, ev["entity"]))
            return
        self.check_args(ev, ef, exp if ef is f else self.reencode(vals, ef), "construct " + c.qname)
        self.tr.serial[obj.oid] = ev["self"]
        # every level of the chain must have got its pointer
        chain = [c] + self.prog.ancestors(c)
        missing = [k.qname for k in chain if "ptr_" + camel(k.qname) not in obj.ptrs]
        if missing:
            self.add("G4", "G4:missing-base-handle", "object of %s has no ptr_ for %s" % (c.qname, missing))
        self.finish_step("construct %s" % c.qname)

    def reencode(self, vals, f):
        """expected encodings of the supplied MATLAB values for another compatible overload"""
        out = []
        for v, a in zip(vals, f.args):
            n = a.ty.name
            if a.ty.kind == "prim" and n == "int":
                x = self.s.num(v)
                # a double outside the int range converts with undefined behaviour: not judged
                out.append("i:%d" % int(x) if -2147483648 <= x <= 2147483647 else None)
            elif a.ty.kind == "prim" and n == "size_t":
                x = self.s.num(v)
                out.append("z:%d" % int(x) if 0 <= x < 18446744073709551616 else None)
            elif a.ty.kind == "prim" and n == "double":
                out.append("d:" + struct.pack("<d", float(v.data[0])).hex())
            elif a.ty.kind == "prim" and n == "bool":
                out.append("b:%d" % v.v)
            elif a.ty.kind == "prim" and n == "char":
                out.append("c:%d" % ord(v.s[0]) if isinstance(v, S.MChar) and v.s else None)
            elif a.ty.kind == "prim" and n == "string":
                out.append("s:" + v.s.encode().hex())
            elif a.ty.kind == "eig":
                if n == "Matrix":
                    m, nn = v.dims()
                    rows = [v.data[j * m + i] for i in range(m) for j in range(nn)]
                    out.append("M:%d:%d" % (m, nn) + "".join(":" + struct.pack("<d", x).hex() for x in rows))
                else:
                    out.append("V:%d" % len(v.data) + "".join(":" + struct.pack("<d", x).hex() for x in v.data))
            elif a.ty.kind == "enum":
                out.append("e:%d" % v.v)
            elif a.ty.kind == "class":
                ser = self.tr.serial.get(v.oid)
                out.append(("copy-of", ser) if a.ty.mode == "val" else "o:%d" % ser)
        return out

    def account_entity_events(self, evs):
        """library-side bookkeeping: with `retained` on, every shared-pointer return comes from (or goes
        into) the library's own pool, which keeps the object alive with one extra reference"""
        self.entity_calls += len(evs)
        for e in evs:
            if e["entity"] not in self.by_entity or e["ret"] == "throw":
                continue
            fn = self.by_entity[e["entity"]][1]
            if self.retained_on:
                for a, enc in zip(fn.args, e["args"]):
                    if a.ty.kind == "class" and a.ty.mode == "sptr" and enc.startswith("o:") and enc[2:].isdigit():
                        self.tr.retained.add(int(enc[2:]))       # the library kept the pointer it was given
                        self.pr("library_retained_an_argument")
            ret = fn.ret
            if ret is None:
                continue
            parts = [ret] if not isinstance(ret, tuple) else [ret[1], ret[2]]
            rets = [e["ret"]] if not isinstance(ret, tuple) else \
                [e["ret"].split(" P2=")[0][3:], e["ret"].split(" P2=")[1]]
            for ty, r in zip(parts, rets):
                if ty.kind == "class" and ty.mode == "sptr" and self.retained_on and r[2:].isdigit():
                    if int(r[2:]) in self.tr.retained:
                        self.pr("retained_object_returned_twice")
                    self.tr.retained.add(int(r[2:]))

    expect_throw = False

    def op_construct_bad(self, objs):
        c = self.pick_class(with_ctor=True)
        if c is None:
            return
        # arguments that match no guard: a cell array, or too many arguments
        k = self.t.choose(2, "bad-kind")
        vals = [S.MCell()] if k == 0 else [S.MChar("x")] * 6
        self.steps.append("construct-bad %s(%r)" % (mname(c.qname), vals))
        calls0 = len(self.s.gateway_calls)
        try:
            self.s.construct(mname(c.qname), vals)
        except S.MatlabError as e:
            if e.from_mex or len(self.s.gateway_calls) != calls0:
                self.add("G3", "G3:illformed-reached-gateway", "ill-typed constructor call reached the gateway: " + e.msg)
            self.pr("illformed_call_refused")
            return
        self.add("G3", "G3:illformed-accepted", "constructor of %s accepted %r" % (c.qname, vals))

    def op_method_bad(self, objs):
        o = self.t.pick(objs, "obj")
        c = self.prog.class_by_q(o.cls.replace(".", "::"))
        ms = [m for k in [c] + self.prog.ancestors(c) for m in k.methods]
        if not ms:
            return
        f = self.t.pick(ms, "method")
        vals = [S.MCell()] * (len(f.args) + 1 + self.t.choose(2, "extra"))
        self.steps.append("method-bad %r.%s(%d cells)" % (o, f.name, len(vals)))
        calls0 = len(self.s.gateway_calls)
        try:
            self.s.call_method(o, f.name, vals)
        except S.MatlabError as e:
            if e.from_mex or len(self.s.gateway_calls) != calls0:
                self.add("G3", "G3:illformed-reached-gateway", "ill-typed method call reached the gateway: " + e.msg)
            self.pr("illformed_call_refused")
            return
        self.add("G3", "G3:illformed-accepted", "%s.%s accepted %r" % (c.qname, f.name, vals))

    # .. calls ..
    def do_call(self, family, f, vals, exp, call, what, this=None, owner=None):
        self.steps.append(what + "(" + ", ".join(map(repr, vals)) + ")")
        try:
            outs = call()
        except S.MatlabError as e:
            if self.expect_throw and e.from_mex and "injected failure" in e.msg:
                return self.after_exception(e)
            if self.expect_throw:
                # the call never reached the library: the armed injection is withdrawn, the refusal judged as such
                self.expect_throw = False
                self.s.simple("throw_at 0", "ok")
            if e.from_mex and self.shadowed(family, f, vals):
                self.pr("ambiguous_overload_shadowed")
                self.absorb_trace()
                return
            g = getattr(f, "generic", None)
            cls = "wellformed-call-refused"
            rets = [] if f.ret is None else ([f.ret] if not isinstance(f.ret, tuple) else [f.ret[1], f.ret[2]])
            for rt in rets:
                if rt.kind == "enum":
                    en = [x for x in self.prog.enums if x.qname == rt.name][0]
                    if en.mname not in self.s.classes:
                        cls = "class-enum-package-misplaced"
            if any(a.ty.kind == "prim" and a.ty.name == "unsigned char" for a in f.args):
                cls = "unsigned-char-argument-never-accepted"
            if g is not None and any(a.ty.kind == "this" for a in g.args):
                cls = "template-This-argument-refused"
            elif g is not None and g.ret is not None and not isinstance(g.ret, tuple) and g.ret.kind == "this":
                cls = "template-This-return-unknown-class"
            if cls == "class-enum-package-misplaced":
                pass
            self.add("G1", "G1:%s" % cls, "%s raised: %s" % (what, e.msg))
            return
        if self.expect_throw:
            self.expect_throw = False
            self.add("G5", "G5:exception-swallowed", "%s returned normally although the library threw" % what)
            return
        evs = self.absorb_trace()
        self.account_entity_events(evs)
        if len(evs) != 1:
            self.add("G1", "G1:entity-count", "%s ran %d library entities: %s" % (what, len(evs), [e["entity"] for e in evs]))
            return
        ev = evs[0]
        if ev["entity"] not in self.by_entity:
            self.add("G1", "G1:unknown-entity", "%s ran %s" % (what, ev["entity"]))
            return
        ec, ef = self.by_entity[ev["entity"]]
        if ef not in family:
            self.add("G1", "G1:wrong-entity", "%s ran %s, which is not an overload of the called name" % (what, ev["entity"]))
            return
        if not (len(vals) <= len(ef.args) and all(self.compatible(v, a.ty) for v, a in zip(vals, ef.args))):
            self.add("G1", "G1:wrong-overload", "%s with %r ran incompatible overload %s" % (what, vals, ev["entity"]))
            return
        self.check_args(ev, ef, exp if ef is f else self.reencode(vals, ef), what)
        if this is not None:
            if ev["self"] != self.tr.serial.get(this.oid):
                self.add("G1", "G1:wrong-this", "%s ran on object #%d, the handle designates #%s" %
                         (what, ev["self"], self.tr.serial.get(this.oid)))
        self.check_result(ev, ef, outs, what)
        self.finish_step(what)

    def op_method(self, objs):
        o = self.t.pick(objs, "obj")
        c = self.prog.class_by_q(o.cls.replace(".", "::"))
        chain = [c] + self.prog.ancestors(c)
        ms = [(k, m) for k in chain for m in k.methods]
        if not ms:
            return
        k, f = self.t.pick(ms, "method")
        # MATLAB resolves the name along the chain: the most-derived class that defines it wins
        owner = [kk for kk in chain if any(m.name == f.name for m in kk.methods)][0]
        family = [m for m in owner.methods if m.name == f.name]
        if f not in family:
            f = self.t.pick(family, "method-in-owner")
        if owner is not c:
            self.pr("inherited_method_called")
        sup = self.supplied(f)
        if sup is None:
            return
        vals, exp = sup
        self.do_call(family, f, vals, exp, lambda: self.s.call_method(o, f.name, vals),
                     "%r.%s" % (o, f.name), this=o, owner=owner)

    def op_static(self, objs):
        cl = [c for c in self.prog.classes if c.statics]
        if not cl:
            return
        c = self.t.pick(cl, "class")
        f = self.t.pick(c.statics, "static")
        family = [m for m in c.statics if m.name == f.name]
        sup = self.supplied(f)
        if sup is None:
            return
        vals, exp = sup
        self.do_call(family, f, vals, exp, lambda: self.s.call_static(mname(c.qname), f.name, vals),
                     "%s.%s" % (mname(c.qname), f.name))

    def op_func(self, objs):
        if not self.prog.functions:
            return
        ns, f = self.t.pick(self.prog.functions, "func")
        family = [g for n2, g in self.prog.functions if n2 == ns and g.name == f.name]
        sup = self.supplied(f)
        if sup is None:
            return
        vals, exp = sup
        fname = ".".join(ns + [f.name])
        self.do_call(family, f, vals, exp, lambda: self.s.call_free(fname, vals), fname)

    def op_getprop(self, objs):
        cands = []
        for o in objs:
            c = self.prog.class_by_q(o.cls.replace(".", "::"))
            for k in [c] + self.prog.ancestors(c):
                for pn, pt in k.props:
                    cands.append((o, pn, pt))
        if not cands:
            return
        o, pn, pt = self.t.pick(cands, "prop")
        self.steps.append("get %r.%s" % (o, pn))
        try:
            v = self.s.get_property(o, pn)
        except S.MatlabError as e:
            self.add("G1", "G1:property-get-raised", e.msg)
            return
        self.absorb_trace()
        key = (self.tr.serial.get(o.oid), pn)
        if pt.kind == "class":
            # the getter hands out a copy of the member object as a new MATLAB object
            if not isinstance(v, S.MObject):
                self.add("G2", "G2:property", "%r.%s is a %s property but reads %r" % (o, pn, pt.name, v))
                return
            who = self.s.whois(v, "ptr_" + camel(pt.name))
            owner = self.tr.serial.get(o.oid)
            if who is None or not any(who[0] == m or self.is_copy_of(who[0], m) for m in self.members.get(owner, ())):
                self.add("G2", "G2:property", "%r.%s returned an object designating %s, which is not a copy of the "
                         "member object(s) %s" % (o, pn, who, sorted(self.members.get(owner, ()))))
                return
            self.tr.serial[v.oid] = who[0]
            self.pr("class_typed_property_read")
        elif key in self.propvals:
            want = self.propvals[key]
            if not self.same_value(pt, v, want):
                self.add("G2", "G2:property", "%r.%s reads %r after %r was stored" % (o, pn, v, want))
            else:
                self.pr("property_roundtrip")
        self.finish_step("get %s" % pn)

    propvals = None

    def same_value(self, pt, got, want):
        if pt.kind == "prim" and pt.name in ("int", "bool", "size_t"):
            if isinstance(got, S.MArrayRef):
                g = got.scalar()
                self.s.simple("free %d" % got.slot, "ok")
                if g is None:
                    return False
            else:
                g = self.s.num(got)
            w = int(self.s.num(want))
            if pt.name == "int":
                g, w = int(g) & 0xFFFFFFFF, w & 0xFFFFFFFF
            return g == w
        if pt.kind == "prim" and pt.name == "double":
            return isinstance(got, S.MDouble) and got.data[:1] == want.data[:1]
        if pt.kind == "prim" and pt.name == "string":
            return isinstance(got, S.MChar) and got.s == want.s
        if pt.kind == "eig":
            return isinstance(got, S.MDouble) and got.data == want.data and got.dims() == want.dims()
        return True

    def op_setprop(self, objs):
        cands = []
        for o in objs:
            c = self.prog.class_by_q(o.cls.replace(".", "::"))
            for k in [c] + self.prog.ancestors(c):
                for pn, pt in k.props:
                    cands.append((o, pn, pt))
        if not cands:
            return
        o, pn, pt = self.t.pick(cands, "prop")
        g = self.gen_value(pt)
        if g is None:
            return
        val = g[0]
        if pt.kind == "prim" and pt.name == "int" and isinstance(val, S.MDouble):
            val = S.MDouble.scalar(int(val.data[0]))
        self.steps.append("set %r.%s = %r" % (o, pn, val))
        try:
            self.s.set_property(o, pn, val)
        except S.MatlabError as e:
            self.add("G1", "G1:property-set-raised", e.msg)
            return
        self.absorb_trace()
        if pt.kind != "class":
            self.propvals[(self.tr.serial.get(o.oid), pn)] = val
        else:
            self.pr("class_typed_property_written")
        self.finish_step("set %s" % pn)

    def op_delete(self, objs):
        if not objs:
            return
        o = self.t.pick(objs, "obj")
        c = self.prog.class_by_q(o.cls.replace(".", "::"))
        if self.prog.ancestors(c):
            self.pr("delete_base_chain")
        self.steps.append("delete %r" % o)
        ser = self.tr.serial.get(o.oid)
        others = [x for x in objs if x is not o and self.tr.serial.get(x.oid) == ser]
        if others:
            self.pr("same_object_two_handles")
        try:
            self.s.delete(o)
        except S.MatlabError as e:
            self.add("G4", "G4:delete-raised", "delete raised: " + e.msg)
            return
        self.absorb_trace()
        self.tr.serial.pop(o.oid, None)
        self.finish_step("delete")

    def op_throw(self, objs):
        k = 1
        self.steps.append("inject exception at next library entity")
        self.s.simple("throw_at %d" % k, "ok")
        self.expect_throw = True
        self.pr("exception_injected")

    def after_exception(self, e):
        self.expect_throw = False
        evs = self.absorb_trace()
        if not e.from_mex:
            self.add("G5", "G5:not-a-mex-error", "library exception surfaced as %r" % e.msg)
            return
        if "injected failure" not in e.msg:
            # the call failed for another reason before reaching the library: the injection is still armed
            self.s.simple("throw_at 0", "ok")
        self.finish_step("exception")

    def op_retained(self, objs):
        self.retained_on = not self.retained_on
        self.steps.append("library retains returned objects: %s" % self.retained_on)
        self.s.simple("retained %d" % (1 if self.retained_on else 0), "ok")

    def op_unload(self, objs):
        """`clear all`: MATLAB destroys the workspace objects (any order), then unloads the MEX file"""
        self.steps.append("clear all (%d objects)" % len(objs))
        order = self.t.shuffle(objs, "delete-order")
        for o in order:
            self.s.delete(o)
            self.tr.serial.pop(o.oid, None)
        self.absorb_trace()
        n = self.s.unload()
        self.pr("unload_clear_all")
        st = self.s.last_state
        if any(st["coll"].values()):
            self.add("G6", "G6:collector-not-empty", "after unload collectors hold %s" % st["coll"])
        extra = sorted(set(st["live"]) - self.with_members(self.tr.retained))
        if extra:
            self.add("G6", "G6:leak-after-unload", "objects %s are alive after every MATLAB object was deleted and "
                     "the module unloaded, and the library does not retain them" % extra)
        self.unloaded = True
        self.finish_step("unload")

    unloaded = False
    stale_mode = False
    in_stale_delete = False
    stale_objects = 0

    def stale_delete(self):
        """`clear mex` while MATLAB objects are alive (MATLAB allows it; the generated _deleteAllObjects
        prints a warning), then the surviving objects are cleared: their delete methods run."""
        objs = sorted(self.s.objects.values(), key=lambda o: o.oid)
        if not objs:
            return
        self.steps.append("clear mex with %d live objects" % len(objs))
        self.stale_objects = len(objs)
        self.s.unload()
        st = self.s.last_state
        if any(st["coll"].values()):
            self.add("G6", "G6:collector-not-empty", "after unload collectors hold %s" % st["coll"])
            return
        extra = sorted(set(st["live"]) - self.with_members(self.tr.retained))
        if extra:
            self.add("G6", "G6:leak-after-unload", "objects %s survive the unload" % extra)
            return
        o = self.t.pick(objs, "stale-obj")
        self.steps.append("clear the stale object %r" % o)
        self.in_stale_delete = True
        self.s.delete(o)
        self.s.simple("state", "trace")

    def final_unload(self):
        objs = sorted(self.s.objects.values(), key=lambda o: o.oid)
        self.op_unload(objs)

    def finish_step(self, after):
        st = self.s.last_state
        if len(self.state_fps) < 64:
            import zlib
            self.state_fps.add(zlib.crc32(repr((sorted(st["coll"].items()), sorted(st["live"].values()),
                                                len(self.tr.retained))).encode()))
        if self.unloaded and after not in ("unload",):
            self.pr("calls_after_unload")
        if self.check_ownership(after):
            self.check_use_counts()


def run_one(batch, tape, ctx):
    progs = ctx["programs"]
    if batch == "thisargs":
        k, info = -1, ctx["thisargs"]
    else:
        k = tape.choose(len(progs), "program")
        info = progs[k]
    if info.get("compile_error"):
        return {"violations": [{"inv": "G0", "sig": "G0:gateway-does-not-compile",
                                "detail": "the generated gateway of program %d does not compile against a library "
                                          "that declares the interface as written: %s\ninterface:\n%s" %
                                          (k, info["compile_error"][:600], info["interface"][:800])}],
                "digest": "compile-%d" % k, "nontrivial": False, "stats": {"runs": 1}, "faults": {}, "probes": {},
                "steps": 0, "sample": {"program": k}}
    h = Hist(tape, info)
    h.stale_mode = batch == "stale"
    h.propvals = {}
    r = h.run(info["drv"])
    if r is not None:
        return r
    digest = hashlib.sha256(("%d|" % k + "\n".join(h.s.log)).encode()).hexdigest()
    nfault = h.probes.get("exception_injected", 0)
    return {"violations": h.viol, "digest": digest,
            "nontrivial": h.entity_calls >= 3 or nfault > 0 or h.probes.get("unload_clear_all", 0) > 1,
            "stats": {"runs": 1, "steps": len(h.steps), "gateway_calls": len(h.s.gateway_calls),
                      "library_entity_calls": h.entity_calls, "program_%02d" % k: 1},
            "faults": {"library-exception": nfault, "unload": h.probes.get("unload_clear_all", 0),
                       "ill-typed-call": h.probes.get("illformed_call_refused", 0)},
            "probes": h.probes, "steps": len(h.s.gateway_calls), "state_fps": sorted(h.state_fps),
            "interleaving": hashlib.sha256(repr([x.split("(")[0] for x in h.steps]).encode()).hexdigest()[:16],
            "sample": {"program": k, "interface": info["interface"][:700], "steps": h.steps[:30]},
            "trace": (h.steps[-25:] + h.s.log[-30:]) if h.viol else None}
