"""C17 -- embedded docstrings: right text, correctly escaped, change nothing else.

One pybind invocation per run with --xml_source pointing at a generated Doxygen
tree.  extract_docstring re-opens index.xml and the class file for EVERY wrapped
method, so a run is a sequence of 2*M independent I/O operations against a store
that can fail at any of them (xml-faults are injected per open), and the overload
counter is state carried along that sequence.

Oracles (DESIGN.md section 4, C17):
  D1 the run never fails, whatever the fault plan;
  D2 with no fault on the opens serving a method, its literal carries the marker of a
     documented member the statement allows (same class, name, parameter names) and
     no other marker;
  D3 faulted / absent => the literal is "" ; other methods are unaffected;
  D4 decoding the emitted C++ string literal (independent decoder: simple escapes,
     octal, greedy \\x, \\u/\\U, raw UTF-8) yields exactly the UTF-8 of the text
     extract_docstring returned;
  D5 deleting every `, "<literal>"` gives the file generated without xml_source.
"""
import errno
import hashlib
import re
import os

import gtwrap.xml_parser.xml_parser as XP
from gen import doxygen_xml as DX
from gen import interface as G
from sim import pool
from sim import world as W
from sim.tape import Tape

from . import c14 as B

PROP = "C17"
R = W.SIMROOT
XML = R + "/xml"
PROBES = ["overloads_same_param_names", "optional_param_member", "class_missing_from_index",
          "class_file_missing", "member_without_argsstring", "defname_instead_of_declname",
          "param_without_name", "fault_on_index_open", "fault_on_class_open", "text_with_quotes",
          "text_with_backslash", "text_with_trigraph", "text_with_newline", "text_with_nonascii", "text_with_unprintable_latin1",
          "unprintable_followed_by_hexdigit", "templated_class_documented", "no_docs_at_all",
          "bindings_with_marker", "bindings_expected_empty", "more_bindings_than_documented_overloads",
          "xml_member_has_extra_optional_param", "overloads_with_permuted_param_names",
          "literals_crosschecked_with_gpp", "binding_after_fault_on_its_file", "text_longer_than_512", "decoy_class_with_similar_name",
          "decoy_member_with_similar_name", "param_documented_without_text", "param_item_without_name",
          "section_ahead_of_return", "return_section_partial", "truncation_left_document_wellformed", "member_in_other_sectiondef", "xml_in_another_encoding", "lookup_without_a_literal", "constructor_documented_in_xml", "same_class_name_in_two_namespaces"]


def batches(tier):
    if tier == "thorough":
        return [dict(name="faulty", runs=80000, budget_s=600, per_run_timeout=120),
                dict(name="faultfree", runs=50000, budget_s=400, per_run_timeout=120)]
    return [dict(name="faulty", runs=1500, budget_s=40, per_run_timeout=90),
            dict(name="faultfree", runs=1000, budget_s=30, per_run_timeout=90)]


def describe():
    return {
        "rule": "an interface file with overloaded / static / templated methods is generated; a Doxygen tree "
                "is generated from a marker table (tape-chosen omissions: class not in index, class file "
                "missing, member missing, no brief/detailed, defname, unnamed param, optional params, no "
                "argsstring) with documentation texts over Unicode; batch 'faulty' injects 0-3 xml-faults "
                "(ENOENT/EACCES/EISDIR/EIO at open, EIO after k bytes, truncated/empty/garbage content) at "
                "tape-chosen opens of the 2*M open sequence.  Non-trivial = >= 2 documented bindings or >= 1 "
                "fired fault; distinct = distinct sha256 of (event log, output bytes).",
        "probe_names": PROBES,
        "real_vs_stub": {
            "real": ["gtwrap.pybind_wrapper + gtwrap.xml_parser from /repo working tree", "xml.etree (expat)",
                     "scripts/pybind_wrap.py via runpy (or the library call)"],
            "stub": ["file system holding the XML tree (simulated, per-open fault injection)",
                     "C++ compiler: an independent decoder of narrow string literals stands in for it"]},
        "assumptions": [
            "markers identify documentation texts; a binding may carry any documented member the statement "
            "allows when several qualify (identical parameter-name lists, optional trailing parameters)",
            "under a fault touching one of several same-named-parameter overloads the others may carry any of "
            "the qualifying texts or none (narrow relaxation)",
            "D4's escaping clause is input sampling riding on the simulated runs"],
        "side_observations": [],
    }


# ---------------------------------------------------------------------------
# documentation texts
# ---------------------------------------------------------------------------
PIECES = ["compute the value", "returns x", "see also", "a", "f", "0", "9", "abc", "DEF", " ", "  ",
          "\"", "'", "\\", "\\n", "\n", "\t", "?", "??/", "??=", "??'", "??)", "%s", "{0}", "{", "}", "\\x41",
          "\u00e9", "\u00fc", "\u4e2d\u6587", "\u2192", "\U0001f600", "\u00a0", "\u00ad", "\u0085",
          "\u007f", "\u2028", "\u200b", "\ue000", "\U000e0001", "10\u00a0cm", "caf\u00e9", "<b>", "&amp;",
          "]]>", "*/", "//", "R\"(", ")\"", "\r", "\u009f", "\u00a0f", "self->print", "self->", ".def(", "py::arg(\"x\")"]


ESCAPE_DENSE = ["\\", "\"", "\n", "\t", "\r", "\u2028", "\u0085", "\u007f", "?", "\u00e9", "x", "\\n", "%"]


def gen_text(tape, marker):
    parts = [marker]
    if tape.bool(0.08, "long-text"):
        # a long description (hundreds to thousands of characters) dense in characters that need escaping:
        # whatever is done per chunk, per line or per N characters meets an escape sequence at its edge
        n = 40 + tape.choose(700, "long-text-len")
        stride = 1 + tape.choose(4, "long-text-stride")
        for k in range(n):
            if k % stride == 0:
                parts.append(ESCAPE_DENSE[tape.choose(len(ESCAPE_DENSE), "dense-piece")])
            else:
                parts.append("abcdefghij"[k % 10])
    else:
        n = tape.small(6, "text-len", p=0.7)
        for _ in range(n):
            parts.append(PIECES[tape.choose(len(PIECES), "piece")])
    s = "".join(parts)
    return "".join(ch for ch in s if DX.xml_legal(ch))


# ---------------------------------------------------------------------------
# independent decoder of a C++ narrow string literal (the token between the quotes)
# ---------------------------------------------------------------------------
class LiteralError(Exception):
    pass


TRIGRAPH = re.compile(r"\?\?[=/'()!<>-]")
SIMPLE = {"n": 10, "t": 9, "r": 13, "a": 7, "b": 8, "f": 12, "v": 11, "\\": 92, "'": 39, '"': 34, "?": 63}


def decode_cpp_literal(body):
    """body: the characters between the double quotes, as they appear in the source file."""
    out = bytearray()
    i, n = 0, len(body)
    while i < n:
        c = body[i]
        if c == "\n":
            raise LiteralError("raw newline inside a string literal")
        if c != "\\":
            out += c.encode("utf-8")
            i += 1
            continue
        i += 1
        if i >= n:
            raise LiteralError("dangling backslash")
        e = body[i]
        if e in SIMPLE:
            out.append(SIMPLE[e])
            i += 1
        elif e in "01234567":
            j = i
            while j < n and j - i < 3 and body[j] in "01234567":
                j += 1
            v = int(body[i:j], 8)
            if v > 255:
                raise LiteralError("octal escape out of range")
            out.append(v)
            i = j
        elif e == "x":
            j = i + 1
            while j < n and body[j] in "0123456789abcdefABCDEF":
                j += 1          # greedy: as many hex digits as follow
            if j == i + 1:
                raise LiteralError("\\x used with no following hex digits")
            v = int(body[i + 1:j], 16)
            if v > 255:
                raise LiteralError("hex escape sequence out of range (\\x%s)" % body[i + 1:j])
            out.append(v)
            i = j
        elif e in "uU":
            k = 4 if e == "u" else 8
            h = body[i + 1:i + 1 + k]
            if len(h) != k or any(ch not in "0123456789abcdefABCDEF" for ch in h):
                raise LiteralError("incomplete universal character name")
            cp = int(h, 16)
            if 0xD800 <= cp <= 0xDFFF or cp > 0x10FFFF:
                raise LiteralError("invalid universal character")
            out += chr(cp).encode("utf-8")
            i += 1 + k
        else:
            raise LiteralError("unknown escape sequence \\%s" % e)
    return bytes(out)


def decode_literal(src):
    """src: the text between the first opening and the last closing quote of a run of adjacent literals"""
    out = b""
    i = 0
    while True:
        e = scan_literal_end('"' + src[i:] + '"', 0)
        piece = src[i:i + e - 1]
        out += decode_cpp_literal(piece)
        i += e - 1
        if i >= len(src):
            return out
        # src[i] is the closing quote of this piece: whitespace and the next opening quote follow
        k = i + 1
        while k < len(src) and src[k] in " \t\n":
            k += 1
        if k >= len(src) or src[k] != '"':
            raise LiteralError("junk after the closing quote: %r" % src[i:i + 20])
        i = k + 1


def scan_literal_end(s, start):
    """s[start] is the opening quote; return index of the closing quote"""
    i = start + 1
    while i < len(s):
        if s[i] == "\\":
            i += 2
            continue
        if s[i] == '"':
            return i
        if s[i] == "\n":
            return -1
        i += 1
    return -1


_RAW_OPEN = re.compile(r'R"([^()\\ \t\n"]{0,16})\(')
_WS = " \t\n"


def _literal_starts(act, k):
    return k < len(act) and (act[k] == '"' or act.startswith('R"', k) or act.startswith('u8"', k) or
                             act.startswith('u8R"', k))


def scan_literal_run(act, k):
    """act[k] starts a string literal; consume the run of adjacent literals (ordinary, raw, u8-prefixed: one
    literal to the compiler, translation phase 6).  -> (inner text in the `a" "b` form decode_literal()
    reads, index after the run).  A raw piece is re-rendered as octal escapes of its UTF-8 bytes, which is
    what it denotes."""
    pieces = []
    while True:
        if act.startswith("u8", k):
            k += 2
        if act.startswith('R"', k):
            m = _RAW_OPEN.match(act, k)
            if not m:
                raise ValueError("ill-formed raw string literal at offset %d: %r" % (k, act[k:k + 40]))
            close = ")" + m.group(1) + '"'
            e = act.find(close, m.end())
            if e < 0:
                raise ValueError("unterminated raw string literal at offset %d: %r" % (k, act[k:k + 40]))
            pieces.append("".join("\\%03o" % b for b in act[m.end():e].encode("utf-8", "surrogateescape")))
            k = e + len(close)
        else:
            e = scan_literal_end(act, k)
            if e < 0:
                raise ValueError("unterminated inserted literal at offset %d: %r" % (k, act[k:k + 60]))
            pieces.append(act[k + 1:e])
            k = e + 1
        k2 = k
        while k2 < len(act) and act[k2] in _WS:
            k2 += 1
        if _literal_starts(act, k2):
            k = k2
            continue
        return '" "'.join(pieces), k


def align_insertions(ref, act):
    """act must be ref plus inserted string literals, each with the comma that makes it an argument:
    `, "<literal>"` (the form the generator uses today) or `"<literal>", ` -- white space around the comma and
    the spelling of the literal (adjacent pieces, raw strings) are free.  -> list of literal bodies, or raises"""
    lits = []
    i = j = 0
    while i < len(ref) or j < len(act):
        if i < len(ref) and j < len(act) and ref[i] == act[j]:
            i += 1
            j += 1
            continue
        if j < len(act) and act[j] == ",":
            k = j + 1
            while k < len(act) and act[k] in _WS:
                k += 1
            if _literal_starts(act, k):
                body, j = scan_literal_run(act, k)
                lits.append(body)
                continue
        if _literal_starts(act, j) and (i >= len(ref) or not _literal_starts(ref, i)):
            body, k = scan_literal_run(act, j)
            while k < len(act) and act[k] in _WS:
                k += 1
            if k < len(act) and act[k] == ",":
                k += 1
                while k < len(act) and act[k] in _WS and not (i < len(ref) and ref[i] == act[k]):
                    k += 1
                lits.append(body)
                j = k
                continue
        raise ValueError("outputs diverge at ref[%d]=%r act[%d]=%r" % (i, ref[i:i + 40], j, act[j:j + 40]))
    return lits


# ---------------------------------------------------------------------------
# scenario
# ---------------------------------------------------------------------------
def _ret_basic(m):
    r = getattr(m, "ret", None)
    if r is None:
        return True
    tys = [r.t1] + ([r.t2] if getattr(r, "t2", None) is not None else []) if hasattr(r, "t1") else []
    return all(t.name in ("void", "int", "double", "bool", "size_t", "string", "char", "unsigned char", "float") and
               t.targs is None for t in tys) if tys else False


def gen_case(tape, batch):
    model, _, _ = G.generate(tape, "pybind", tag="QA", max_decls=5)
    n_ovl = B._add_overload_pairs(model, tape)
    twin = None
    if tape.bool(0.2, "twin-class"):
        # the same class NAME in a second namespace, with the same method names and parameter names: told apart
        # by the namespace only (each gets its own documentation below)
        import copy
        plain = [c for c in model.classes() if c.tmpl is None and c.parent is None and
                 (c.of("method") or c.of("static"))]
        if plain:
            src_c = tape.pick(plain, "twin-of")
            tns = G.Namespace(tape.pick(["twin", "other", "v2"], "twin-ns"), [])
            twin = copy.deepcopy(src_c)
            twin.ns = [tns.name]
            twin.members = [m for m in twin.members if isinstance(m, G.Func) and m.tmpl is None and
                            all(a.ty.name in G.BASIC or a.ty.name in ("string", "double") for a in m.args) and
                            (m.kind == "ctor" or m.ret is None or True)]
            # keep only members whose signatures do not mention other classes by unqualified name
            def _self_contained(m):
                tys = [a.ty for a in m.args]
                return all(t.name in ("int", "double", "bool", "size_t", "string", "char", "unsigned char", "float")
                           for t in tys)
            twin.members = [m for m in twin.members if _self_contained(m) and
                            (m.kind == "ctor" or _ret_basic(m))]
            if twin.of("method") or twin.of("static"):
                tns.content.append(twin)
                model.content.append(tns)
            else:
                twin = None
    # a third same-named-parameter overload now and then
    for c in model.classes():
        for f in list(c.of("method")):
            if f.tmpl is None and f.args and tape.bool(0.08, "third-overload"):
                c.members.append(G.Func("method", f.name, G.Ret(G.Ty("bool")),
                                        [G.Arg(G.Ty("string"), a.name) for a in f.args], const=f.const))
    # overloads whose parameter NAMES are a permutation of each other (insert(key, value) / insert(value, key)):
    # told apart only by the order of the names
    n_perm = 0
    for c in model.classes():
        for f in list(c.of("method")):
            if f.tmpl is None and len(f.args) >= 2 and all(a.default is None for a in f.args) and \
                    tape.bool(0.25, "permuted-overload"):
                c.members.append(G.Func("method", f.name, G.Ret(G.Ty("int")),
                                        [G.Arg(a.ty, a.name) for a in reversed(f.args)], const=f.const))
                n_perm += 1
    lex, _ = model.lexemes()
    text = G.render(lex, tape)
    case = {"text": text, "n_ovl": n_ovl, "probes": {}}
    if twin is not None:
        case["probes"]["same_class_name_in_two_namespaces"] = 1
    if n_perm:
        case["probes"]["overloads_with_permuted_param_names"] = 1
    pr = case["probes"]
    mk = [0]

    def marker():
        mk[0] += 1
        return "MRK%04d." % mk[0]

    docs = []       # the documentation table: class entries
    classes = []
    for c in model.classes():
        if c.tmpl is None:
            classes.append((c.qname, c, False))
        elif len(c.tmpl.params) == 1 and c.tmpl.params[0][1] and tape.bool(0.5, "doc-templated"):
            for inst in c.tmpl.params[0][1]:
                if inst.targs is None:
                    classes.append(("%s<%s>" % (c.qname, inst.name), c, True))
    for cname, c, templ in classes:
        if tape.bool(0.1, "class-undocumented"):
            continue
        entry = {"name": cname, "refid": DX.refid_for(cname), "members": [],
                 "in_index": not tape.bool(0.07, "not-in-index"),
                 "has_file": not tape.bool(0.07, "no-class-file")}
        if templ:
            pr["templated_class_documented"] = 1
        if not entry["in_index"]:
            pr["class_missing_from_index"] = 1
        if not entry["has_file"]:
            pr["class_file_missing"] = 1
        arities = {}
        for f in c.of("method") + c.of("static"):
            arities.setdefault(f.name, set()).add(len(f.args))
        entry["_arities"] = arities
        ctor_docs = c.of("ctor") if tape.bool(0.3, "document-constructors") else []
        if ctor_docs:
            pr["constructor_documented_in_xml"] = 1
        for f in c.of("method") + c.of("static") + ctor_docs:
            if f.tmpl is not None:
                continue
            if tape.bool(0.12, "member-undocumented"):
                continue
            mkr = marker()
            params = [{"name": a.name, "tag": "declname",
                       "defval": (a.default if a.default is not None else None)} for a in f.args]
            # defaults in the XML: wrap documents the binding with all parameters
            if params and tape.bool(0.06, "defname"):
                params[tape.choose(len(params), "which-param")]["tag"] = "defname"
                pr["defname_instead_of_declname"] = 1
            if params and tape.bool(0.04, "unnamed-param"):
                # Doxygen does not always give a <param> a name: such a member can match nothing
                params[tape.choose(len(params), "which-param")]["tag"] = None
                pr["param_without_name"] = 1
            if any(p["defval"] is not None for p in params):
                pr["optional_param_member"] = 1
            if tape.bool(0.08, "extra-optional-param"):
                # the C++ member has a further optional parameter the interface does not expose
                params.append({"name": "extra_opt", "defval": "0",
                               "tag": "defname" if tape.bool(0.15, "extra-defname") else "declname"})
                pr["xml_member_has_extra_optional_param"] = 1
            style = tape.weighted([6, 2, 1, 1], "doc-style")     # brief+detail / brief only / detail only / none
            # Doxygen files static members under "public-static-func" and the members of a named group
            # (`/// @name Testable ... @{`) under "user-defined"
            section = "public-static-func" if f in c.of("static") else \
                (tape.pick(["user-defined#Testable", "user-defined#Standard Interface"], "group")
                 if tape.bool(0.25, "member-group") else "public-func")
            if section != "public-func":
                pr["member_in_other_sectiondef"] = 1
            m = {"name": f.name, "kind": "function", "params": params, "marker": mkr, "section": section,
                 "static": f in c.of("static"),
                 "brief": gen_text(tape, mkr) if style in (0, 1) else None,
                 "detailed": gen_text(tape, mkr) if style in (0, 2) else None,
                 "param_docs": [(p["name"], gen_text(tape, "")) for p in params]
                 if (style in (0, 2) and params and tape.bool(0.4, "param-docs")) else None,
                 "returns": gen_text(tape, "") if (style in (0, 2) and tape.bool(0.3, "returns")) else None,
                 "argsstring": True}
            if m["param_docs"] and m["detailed"] is None:
                m["param_docs"] = None
            # partial but well-formed documentation: a parameter listed without description text or without
            # a name, a return section without text or without `kind`, other sections (@see, @note) ahead of it
            if m["param_docs"] and tape.bool(0.2, "partial-param-docs"):
                k = tape.choose(len(m["param_docs"]), "which-param-doc")
                pn, pd = m["param_docs"][k]
                if tape.bool(0.75, "no-description-para"):
                    m["param_docs"][k] = (pn, None)
                    pr["param_documented_without_text"] = 1
                else:
                    m["param_docs"][k] = (None, pd)
                    pr["param_item_without_name"] = 1
            if m["detailed"] is not None and tape.bool(0.12, "other-sections"):
                m["sects_before"] = [(tape.pick(["see", "note", "warning"], "sect-kind"), gen_text(tape, ""))]
                pr["section_ahead_of_return"] = 1
            if m["returns"] is not None and tape.bool(0.15, "partial-return"):
                how = tape.pick(["nopara", "nokind", "otherkind"], "partial-return-kind")
                if how == "nopara":
                    m["returns"] = "\0nopara"
                elif how == "nokind":
                    m["returns_kind"] = None
                else:
                    m["returns_kind"] = "see"
                pr["return_section_partial"] = 1
            if style == 3:
                m["marker"] = None
            entry["members"].append(m)
        # an unrelated same-named non-function member without <argsstring> (e.g. an enum value) for a name
        # whose bindings all take >= 1 argument (so arity filters it out)
        names = sorted(n for n, ar in arities.items() if 0 not in ar)
        if names and tape.bool(0.1, "decoy-no-argsstring"):
            entry["members"].insert(tape.choose(len(entry["members"]) + 1, "decoy-pos"),
                                    {"name": tape.pick(names, "decoy-name"), "kind": "enumvalue", "params": [],
                                     "marker": None, "brief": None, "detailed": None, "param_docs": None,
                                     "returns": None, "argsstring": False})
            pr["member_without_argsstring"] = 1
        docs.append(entry)
    # Decoys: documentation the interface does not ask for, placed where a looser match than "the same class,
    # name and parameter names" would pick it up -- classes whose names contain / extend / re-case / re-namespace
    # a wrapped class's name, with the same members under other markers; members whose names extend or are
    # extended by a wrapped method's name, and same-named non-function members.  No binding may carry a
    # decoy's marker (they are in no `allowed` set).
    import copy
    xml_classes = []
    # (every wrapped class's name is taken, documented or not: a "decoy" under the name of an undocumented wrapped
    #  class -- e.g. the global twin of a namespaced class -- would simply be that class's documentation)
    taken = {e["name"] for e in docs} | {cname for cname, _, _ in classes} | {c.qname for c in model.classes()}
    for entry in docs:
        dec = None
        if entry["members"] and "<" not in entry["name"] and tape.bool(0.35, "decoy-class"):
            base = entry["name"]
            last = base.split("::")[-1]
            nsq = base[:len(base) - len(last)]
            dname = {"prefix": nsq + "My" + last, "suffix": nsq + last + "Ext", "other-ns": "zz::" + last,
                     "outer-ns": "outer::" + base, "no-ns": last if nsq else "detail::" + last,
                     "lower": nsq + last.lower(), "suffix-digit": nsq + last + "2"}[
                tape.pick(["prefix", "suffix", "other-ns", "outer-ns", "no-ns", "lower", "suffix-digit"],
                          "decoy-class-kind")]
            if dname not in taken:
                taken.add(dname)
                dec = {"name": dname, "refid": DX.refid_for(dname), "members": [], "in_index": True,
                       "has_file": True, "decoy": True}
                for m in entry["members"]:
                    dm = copy.deepcopy(m)
                    if dm.get("marker"):
                        dm["marker"] = marker()
                        for k in ("brief", "detailed"):
                            if dm.get(k) is not None:
                                dm[k] = dm["marker"] + " decoy of " + dname
                    dec["members"].append(dm)
                pr["decoy_class_with_similar_name"] = 1
        xe = entry
        funcs = [m for m in entry["members"] if m.get("kind") == "function" and m.get("marker")]
        if funcs and tape.bool(0.3, "decoy-member"):
            xe = dict(entry, members=list(entry["members"]))
            src = tape.pick(funcs, "decoy-member-of")
            how = tape.pick(["longer", "prefixed", "shorter", "variable", "upper", "unnamed-extra", "unnamed-extra"],
                            "decoy-member-kind")
            nm = {"longer": src["name"] + "All", "prefixed": "my" + src["name"], "shorter": src["name"][:-1],
                  "variable": src["name"], "upper": src["name"].upper(), "unnamed-extra": src["name"]}[how]
            dm = copy.deepcopy(src)
            dm["name"] = nm
            dm["marker"] = marker()
            dm["brief"] = dm["marker"] + " decoy member"
            dm["detailed"] = None
            dm["param_docs"] = None
            dm["returns"] = None
            if how == "unnamed-extra":
                # a C++ overload the interface does not wrap, with one more parameter that has no name
                # (`scale(const Point&, double factor)` next to `scale(double factor)`): another arity, never a match
                # (before the first defaulted parameter: defaults trail in C++)
                first_default = next((i for i, pp in enumerate(dm["params"]) if pp.get("defval") is not None),
                                     len(dm["params"]))
                k = tape.choose(first_default + 1, "unnamed-at")
                dm["params"] = [dict(p) for p in dm["params"]]
                dm["params"].insert(k, {"name": "unnamed", "tag": None, "defval": None})
            if how == "variable":
                dm["kind"] = "variable"
                dm["params"] = []
                dm["argsstring"] = False
                dm["section"] = "public-attrib"
            wrapped_names = set(entry["_arities"])
            # (a same-named data member next to a method cannot exist in C++; it is kept as a decoy only where
            #  the arity already tells it apart, like the enum-value decoy above)
            if nm and ((how == "variable" and 0 not in entry["_arities"].get(src["name"], {0})) or
                       (how == "unnamed-extra" and
                        len(dm["params"]) not in entry["_arities"].get(src["name"], set())) or
                       (how not in ("variable", "unnamed-extra") and nm not in wrapped_names)):
                xe["members"].insert(tape.choose(len(xe["members"]) + 1, "decoy-member-pos"), dm)
                pr["decoy_member_with_similar_name"] = 1
        # document order of the wrapped members (Doxygen groups members by section; a k-th binding is matched
        # with the k-th same-named memberdef in DOCUMENT order)
        secs = []
        for mm in xe["members"]:
            if mm.get("section", "public-func") not in secs:
                secs.append(mm.get("section", "public-func"))
        pos = {id(mm): (secs.index(mm.get("section", "public-func")), k) for k, mm in enumerate(xe["members"])}
        entry["_doc_order"] = sorted(entry["members"], key=lambda mm: pos[id(mm)])
        if dec is not None and tape.bool(0.5, "decoy-class-first"):
            xml_classes += [dec, xe]
        elif dec is not None:
            xml_classes += [xe, dec]
        else:
            xml_classes.append(xe)
    case["docs"] = docs
    if not any(m.get("marker") for e in docs for m in e["members"]):
        pr["no_docs_at_all"] = 1
    alltext = "".join((m.get("brief") or "") + (m.get("detailed") or "") for e in docs for m in e["members"])
    if any(len((m.get("brief") or "")) > 512 or len((m.get("detailed") or "")) > 512
           for e in docs for m in e["members"]):
        pr["text_longer_than_512"] = 1
    if '"' in alltext:
        pr["text_with_quotes"] = 1
    if "\\" in alltext:
        pr["text_with_backslash"] = 1
    if TRIGRAPH.search(alltext):
        pr["text_with_trigraph"] = 1
    if "\n" in alltext:
        pr["text_with_newline"] = 1
    if any(ord(ch) > 127 for ch in alltext):
        pr["text_with_nonascii"] = 1
    for k, ch in enumerate(alltext):
        if 0x7f <= ord(ch) <= 0xa0 or ord(ch) == 0xad:
            pr["text_with_unprintable_latin1"] = 1
            if k + 1 < len(alltext) and alltext[k + 1] in "0123456789abcdefABCDEF":
                pr["unprintable_followed_by_hexdigit"] = 1
    # the XML store is usually UTF-8, but any encoding named in the declaration (or by a BOM) is legal XML
    index_enc = "UTF-8"
    if tape.bool(0.15, "xml-other-encoding"):
        index_enc = tape.pick(["ISO-8859-1", "UTF-16", "UTF-8"], "index-encoding")
        for xc in xml_classes:
            if tape.bool(0.6, "class-file-other-encoding"):
                if xc is not None and "members" in xc:
                    xc["encoding"] = tape.pick(["ISO-8859-1", "UTF-16"], "class-encoding")
        pr["xml_in_another_encoding"] = 1
    case["xml"] = DX.build_tree({"classes": xml_classes, "index_encoding": index_enc})
    case["mode"] = tape.weighted([2, 1], "mode")
    case["sub"] = tape.bool(0.3, "as-submodule")
    case["tpl"] = B.TEMPLATES[tape.weighted([3, 2, 2], "tpl")]
    case["top"] = ""
    case["gpp"] = tape.bool(0.04, "gpp-crosscheck")
    case["nfaults"] = 0
    if batch == "faulty":
        case["nfaults"] = 1 + tape.weighted([5, 2, 1], "n-faults")
        case["fault_draws"] = [(tape.choose(1000, "fault-at"),
                                tape.wpick([("ENOENT", 1), ("EACCES", 2), ("EISDIR", 1), ("EIO", 2),
                                            ("eio-after", 2), ("truncated", 2), ("empty", 1), ("garbage", 1)],
                                           "fault-kind"),
                                tape.choose(1000, "fault-arg")) for _ in range(case["nfaults"])]
    return case


def _spec(case, with_xml):
    src = R + "/src/main.i"
    argv = ["pybind_wrap.py", "--src", src, "--module_name", "mod", "--out",
            "main.cpp" if case["sub"] else R + "/build/mod.cpp",
            "--top_module_namespaces", case["top"], "--ignore", "--template", R + "/src/m.tpl",
            "--xml_source", XML if with_xml else ""] + (["--is_submodule"] if case["sub"] else [])
    return {"name": "t", "kind": "py-sub" if case["sub"] else "py-main", "mode": case["mode"],
            "cwd": R + "/build", "locale": "utf-8", "argv": argv}


def _world(tape, case, plan=None):
    w = W.World(tape, fault_plan=plan, max_steps=20000)
    W.set_world(w)
    w.mkdirs(R + "/src")
    w.mkdirs(R + "/build")
    w.mkdirs(XML)
    w.put(R + "/src/main.i", case["text"])
    w.put(R + "/src/m.tpl", case["tpl"])
    for fn, data in case["xml"].items():
        w.put(XML + "/" + fn, data)
    return w


def _out_path(case):
    return R + "/build/main.cpp" if case["sub"] else R + "/build/mod.cpp"


def reference_noxml(case):
    W.reference_clock()
    W.install_seams()
    B._quiet()
    w = _world(Tape(replay=[]), case)
    t = w.add_task(B._mk_task(_spec(case, False)))
    w.run()
    return {"state": t.state, "error": t.error, "out": w.files.get(_out_path(case))}


def count_opens(case):
    """(pristine fork) fault-free run with XML: how many XML opens does the run make?"""
    W.install_seams()
    B._quiet()
    w = _world(Tape(replay=[]), case)
    t = w.add_task(B._mk_task(_spec(case, True)))
    w.run()
    n = sum(1 for e in w.log if e[3] == "open-r" and e[4].startswith(XML + "/"))
    return {"state": t.state, "error": t.error, "opens": n}


def run_case(tape, batch):
    case = gen_case(tape, batch)
    ref = pool.run_isolated(reference_noxml, case, 90)
    if "harness" in ref:
        return {"harness": "reference", "detail": ref}
    if ref["state"] != "done":
        return {"harness": "generator-left-the-dialect", "detail": repr(ref["error"]) + case["text"][:300]}
    fault_at = {}
    if case["nfaults"]:
        co = pool.run_isolated(count_opens, case, 90)
        if "harness" in co:
            return {"harness": "count-opens", "detail": co}
        nopen = co["opens"]
        if nopen:
            for pos, kind, arg in case["fault_draws"]:
                fault_at[pos % nopen] = (kind, arg)
    W.install_seams()
    B._quiet()
    seen = [0]
    faulted_paths = {}

    def plan(w, task, op, path, info):
        if op != "open-r" or not path.startswith(XML + "/"):
            return None
        k = seen[0]
        seen[0] += 1
        f = fault_at.get(k)
        if f is None:
            return None
        kind, arg = f
        if kind == "truncated":
            # cutting only trailing white space leaves a well-formed document: that is no fault at all
            import xml.etree.ElementTree as _ET
            try:
                _ET.fromstring(w.files.get(path, b"")[:arg % max(1, len(w.files.get(path, b"")))])
                w.probe("truncation_left_document_wellformed")
                return None
            except _ET.ParseError:
                pass
        faulted_paths.setdefault(path, len(w.log))      # first fault on this file, by event-log position
        w.probe("fault_on_index_open" if path.endswith("/index.xml") else "fault_on_class_open")
        data = w.files.get(path, b"")
        if kind in ("ENOENT", "EACCES", "EISDIR", "EIO"):
            return ("errno", getattr(errno, kind))
        if kind == "eio-after":
            return ("eio-after", arg % max(1, len(data)))
        if kind == "truncated":
            return ("content", data[:arg % max(1, len(data))], "xml-truncated")
        if kind == "empty":
            return ("content", b"", "xml-empty")
        return ("content", b"\x00\xff<<<not xml" + data[:arg % 50], "xml-garbage")

    w = _world(tape, case, plan)
    for k, v in case["probes"].items():
        w.probe(k, v)
    # capture every extract_docstring call with the opens it performed
    calls = []
    orig = XP.XMLDocParser.extract_docstring

    import inspect
    sig = inspect.signature(orig)
    pnames = list(sig.parameters)[1:5]      # (xml folder, class, method, parameter names) -- by position, whatever their names
    broken = []

    def hooked(self, *a, **kw):
        try:
            ba = sig.bind(self, *a, **kw)
            ba.apply_defaults()
            _, cpp_class, cpp_method, method_args_names = [ba.arguments[n] for n in pnames]
            rec = {"cls": str(cpp_class), "method": str(cpp_method), "args": [str(x) for x in method_args_names]}
        except Exception as e:      # the seam moved: a harness matter, never a verdict
            broken.append("extract_docstring%s called with %r %r: %s" % (sig, a[1:], sorted(kw), e))
            return orig(self, *a, **kw)
        rec.update(log0=len(w.log), faults0=sum(w.faults_fired.values()))
        calls.append(rec)
        try:
            r = orig(self, *a, **kw)
            rec["ret"] = r
            return r
        except BaseException as e:
            rec["exc"] = type(e).__name__
            raise
        finally:
            rec["log1"] = len(w.log)
            rec["faulted"] = sum(w.faults_fired.values()) != rec["faults0"]
    XP.XMLDocParser.extract_docstring = hooked
    t = w.add_task(B._mk_task(_spec(case, True)))
    w.run()
    if broken:
        return {"harness": "docstring-seam", "detail": broken[0]}
    viol = []
    nfired = sum(w.faults_fired.values())
    out = w.files.get(_out_path(case))
    if t.state != "done":
        last = calls[-1] if calls else {}
        viol.append({"inv": "D1", "sig": "D1:%s" % (t.error or ("?",))[0],
                     "detail": "the run failed with %s while documenting %s.%s(%s); faults fired: %s; the XML "
                               "member table for that name: %s" %
                               (t.error, last.get("cls"), last.get("method"), ",".join(last.get("args", [])),
                                dict(w.faults_fired),
                                [(m["kind"], [p["name"] for p in m["params"]], m.get("argsstring"))
                                 for e in case["docs"] if e["name"] == last.get("cls")
                                 for m in e["members"] if m["name"] == last.get("method")])})
    elif out is None:
        viol.append({"inv": "D1", "sig": "D1:no-output", "detail": "run succeeded without writing its output"})
    else:
        act = out.decode("utf-8", "surrogateescape")
        refs = ref["out"].decode("utf-8", "surrogateescape")
        lits = None
        try:
            lits = align_insertions(refs, act)
        except ValueError as e:
            viol.append({"inv": "D5", "sig": "D5:not-pure-insertion",
                         "detail": "output with XML is not the output without XML plus `, \"literal\"` "
                                   "insertions: %s" % e})
        if lits is not None and len(lits) < len(calls):
            # a tool may leave out the literal of a lookup that returned nothing (`, ""` adds nothing): pair the
            # literals with the calls in order, letting calls that returned "" go without one
            paired, j = [], 0
            for c in calls:
                ret = c.get("ret", "")
                nxt = None
                if j < len(lits):
                    try:
                        nxt = decode_literal(lits[j])
                    except LiteralError:
                        nxt = None
                need = len(calls) - len(paired) - 1          # calls still to be served after this one
                if j < len(lits) and (ret != "" or nxt == b"" or len(lits) - j > need):
                    paired.append(lits[j])
                    j += 1
                elif ret == "":
                    paired.append("")
                    w.probe("lookup_without_a_literal")
                else:
                    paired = None
                    break
            if paired is not None and j == len(lits):
                lits = paired
        if lits is not None and len(lits) != len(calls):
            viol.append({"inv": "D5", "sig": "D5:literal-count",
                         "detail": "%d inserted literals for %d extract_docstring calls" % (len(lits), len(calls))})
            lits = None
        if lits is not None:
            case["faulted_paths"] = faulted_paths
            viol += judge(case, calls, lits, w)
            if case["gpp"] and not viol and lits:
                ok_lits = [lt for lt in lits]
                bad = gpp_crosscheck(ok_lits, [c.get("ret", "").encode("utf-8") for c in calls])
                if bad is not None:
                    return {"harness": "literal-decoder-disagrees-with-g++", "detail": bad}
                w.probe("literals_crosschecked_with_gpp", len(ok_lits))
    digest = hashlib.sha256((w.digest() + repr((t.state, t.error))).encode()).hexdigest()
    ndoc = sum(1 for e in case["docs"] for m in e["members"] if m.get("marker"))
    sample = {"interface": case["text"][:500], "classes_documented": [e["name"] for e in case["docs"]],
              "faults": {str(k): v for k, v in fault_at.items()}, "calls": len(calls),
              "example_doc": next((m["brief"] or m["detailed"] for e in case["docs"] for m in e["members"]
                                   if m.get("marker")), None)}
    return {"violations": viol[:6], "digest": digest, "nontrivial": ndoc >= 2 or nfired > 0,
            "stats": {"runs": 1, "extract_calls": len(calls), "documented_members": ndoc,
                      "xml_opens": seen[0]},
            "faults": dict(w.faults_fired), "probes": w.probes, "steps": w.step, "sample": sample,
            "trace": ["%d %s#%d %s %s -> %s (%s)" % ev for ev in w.log[-30:]] if viol else None}


def gpp_crosscheck(lits, expected):
    """Harness self-check: g++ must decode each emitted literal to the bytes our independent decoder
    computed.  -> None if g++ agrees, else a description (that would be a decoder bug, not a verdict)."""
    import subprocess
    import tempfile
    src = ["constexpr bool eq(const char* a, const unsigned char* b, int n) "
           "{ for (int i = 0; i < n; ++i) if ((unsigned char)a[i] != b[i]) return false; return true; }"]
    for k, (lit, exp) in enumerate(zip(lits, expected)):
        src.append("constexpr unsigned char e%d[] = {%s0};" % (k, "".join("%d," % b for b in exp)))
        src.append("static_assert(sizeof(\"%s\") - 1 == %d && eq(\"%s\", e%d, %d), \"literal %d\");" %
                   (lit, len(exp), lit, k, len(exp), k))
    with tempfile.TemporaryDirectory(prefix="verif-c17-") as d:
        path = d + "/lits.cpp"
        with open(path, "w", encoding="utf-8", errors="surrogateescape") as f:
            f.write("\n".join(src) + "\n")
        p = subprocess.run(["g++", "-std=gnu++17", "-fsyntax-only", "-w", path], capture_output=True, text=True)
        return None if p.returncode == 0 else p.stderr[:600]


def judge(case, calls, lits, w):
    viol = []
    by_class = {e["name"]: e for e in case["docs"]}
    # how many bindings share (class, method, names)?
    nkey = {}
    for c in calls:
        key = (c["cls"], c["method"], tuple(c["args"]))
        nkey[key] = nkey.get(key, 0) + 1
    key_faulted = {}
    for c in calls:
        key = (c["cls"], c["method"], tuple(c["args"]))
        key_faulted[key] = key_faulted.get(key, False) or c["faulted"]
    kcount = {}
    for c, lit in zip(calls, lits):
        key = (c["cls"], c["method"], tuple(c["args"]))
        kidx = kcount.get(key, 0)
        kcount[key] = kidx + 1
        doc = c.get("ret", "")
        # ---- D4: escaping ----------------------------------------------------------
        try:
            got = decode_literal(lit)
            tri = TRIGRAPH.search(lit)
            if tri and got == doc.encode("utf-8"):
                # translation phase 1 of every C++ standard before C++17 (and of compilers that keep the feature)
                # replaces ??= ??/ ??' ??( ??) ??! ??< ??> ??- before the literal is even tokenised
                viol.append({"inv": "D4", "sig": "D4:trigraph",
                             "detail": "literal %r contains the trigraph %r: a compiler in C++11/14 mode decodes it to "
                                       "another text than %r (or, for ??/ before the closing quote, does not compile it)"
                                       % (lit[:120], tri.group(0), doc[:80])})
            if got != doc.encode("utf-8"):
                cls = "wrong-bytes"
                if any(0x7f <= ord(ch) <= 0xff for ch in doc) and "\\x" in lit:
                    cls = "hex-escape-is-not-utf8"
                viol.append({"inv": "D4", "sig": "D4:%s" % cls,
                             "detail": "literal %r decodes to %r but the extracted text is %r (utf-8 %r)" %
                                       (lit[:120], got[:80], doc[:80], doc.encode("utf-8")[:80])})
        except LiteralError as e:
            cls = "hex-escape-absorbs-next-char" if "hex escape" in str(e) else "ill-formed"
            viol.append({"inv": "D4", "sig": "D4:%s" % cls,
                         "detail": "literal %r is not a well-formed C++ string literal for the text %r: %s" %
                                   (lit[:120], doc[:80], e)})
        # ---- D2 / D3: right text ---------------------------------------------------
        entry = by_class.get(c["cls"])
        reachable = entry is not None and entry.get("in_index", True) and entry.get("has_file", True)
        exact, prefix = [], []
        if reachable:
            for m in entry.get("_doc_order", entry["members"]):
                if m["name"] != c["method"] or m["kind"] != "function":
                    continue
                names = [p["name"] if p.get("tag", "declname") else None for p in m["params"]]
                nreq = len([p for p in m["params"] if p.get("defval") is None])
                if names == c["args"]:
                    exact.append(m)
                elif len(c["args"]) == nreq and names[:nreq] == c["args"]:
                    prefix.append(m)
        cands = exact + prefix
        allowed = {m["marker"] for m in cands if m.get("marker")}
        may_be_empty = (not cands) or any(not m.get("marker") for m in cands) or c["faulted"]
        present = sorted(set(re.findall(r"MRK\d{4}\.", doc)))      # markers of wrapped members and of decoys alike
        if c["faulted"]:
            if doc != "":
                viol.append({"inv": "D3", "sig": "D3:docstring-after-fault",
                             "detail": "an xml-fault hit the opens of %s.%s(%s) but the literal is %r" %
                                       (c["cls"], c["method"], ",".join(c["args"]), doc[:80])})
            continue
        # a reader may legitimately remember that a file was unreadable (e.g. a per-run cache of parsed
        # files): once a fault has hit index.xml or this class's file, later bindings that need that file
        # may come out empty -- "unreadable XML yields an empty docstring"
        prior = case.get("faulted_paths", {})
        needs = [XML + "/index.xml"] + ([XML + "/" + entry["refid"] + ".xml"] if entry is not None else [])
        if any(pth in prior and prior[pth] <= c["log0"] for pth in needs):
            may_be_empty = True
            w.probe("binding_after_fault_on_its_file")
        relaxed = key_faulted[key] and nkey[key] > 1
        if nkey[key] > len(cands) >= 1:
            # more bindings with this name list than documented members: which overload is the
            # undocumented one cannot be told, so any of them may be empty
            may_be_empty = True
        if relaxed:
            allowed |= {m["marker"] for m in exact if m.get("marker")}
            may_be_empty = True
        if len(present) > 1 or (present and present[0] not in allowed):
            viol.append({"inv": "D2", "sig": "D2:wrong-member",
                         "detail": "%s.%s(%s) [binding #%d of %d with these names] carries %s; allowed: %s" %
                                   (c["cls"], c["method"], ",".join(c["args"]), kidx + 1, nkey[key],
                                    present, sorted(allowed))})
        elif not present and not may_be_empty:
            viol.append({"inv": "D2", "sig": "D2:documentation-lost",
                         "detail": "%s.%s(%s) is documented (%s) but the literal is %r" %
                                   (c["cls"], c["method"], ",".join(c["args"]), sorted(allowed), doc[:60])})
        elif present and len(exact) > 1 and not prefix and not relaxed and nkey[key] == len(exact) and \
                all(m.get("marker") for m in exact):
            # identical name lists, told apart only by type: k-th binding <-> k-th member in XML order
            if present[0] != exact[kidx]["marker"]:
                viol.append({"inv": "D2", "sig": "D2:overload-order",
                             "detail": "%s.%s(%s): binding #%d carries %s, the #%d documented overload is %s" %
                                       (c["cls"], c["method"], ",".join(c["args"]), kidx + 1, present[0],
                                        kidx + 1, exact[kidx]["marker"])})
        if len(exact) > 1:
            w.probe("overloads_same_param_names")
        if nkey[key] > len(exact) > 1:
            w.probe("more_bindings_than_documented_overloads")
        w.probe("bindings_with_marker" if present else "bindings_expected_empty")
    return viol


def run_one(batch, tape, ctx):
    return run_case(tape, batch)
