"""C14 -- generation is a pure, repeatable function of inputs and options.

Three batches (DESIGN.md section 4, C14):
  build   : several real wrapper invocations (scripts/*.py or the library calls) as
            cooperatively scheduled tasks over one simulated build directory, with
            crashes/restarts, torn writes, stale outputs, shared MATLAB output
            directories, cwd and locale knobs.  Oracle: sequential-build model.
  history : one process, a tape-generated sequence of wrapper creations and wrap
            calls (PybindWrapper reuse is supported); every call's result must equal
            what a pristine process returns for that call alone.
  config  : real subprocesses of the two scripts on real temporary files under
            tape-chosen PYTHONHASHSEED / locale environment / working directory /
            re-run over existing outputs; all outputs must be byte-identical.
"""
import hashlib
import io
import os
import runpy
import shutil
import subprocess
import sys
import tempfile
import zlib

from gen import doxygen_xml as DX
from gen import interface as G
from sim import pool
from sim import world as W
from sim.tape import Tape

PROP = "C14"
NONDETERMINISM_IS_VIOLATION = True     # "same inputs => same bytes": see sim/driver.py
R = W.SIMROOT
REPO = os.environ.get("VERIF_REPO", "/repo")
import gtwrap.matlab_wrapper.wrapper as _mlw  # noqa: E402  (the tree under test, first on sys.path)
GTWRAP_DIR = os.path.dirname(os.path.dirname(os.path.realpath(_mlw.__file__)))
BUNDLED_TPL = os.path.join(GTWRAP_DIR, "matlab_wrapper", "matlab_wrapper.tpl")
BUNDLED_TPL_BYTES = b"#include <gtwrap/matlab.h>\n#include <map>\n"
PY_SCRIPT = os.path.join(REPO, "scripts", "pybind_wrap.py")
ML_SCRIPT = os.path.join(REPO, "scripts", "matlab_wrap.py")

TEMPLATES = [
    # the test-suite template
    "#include <pybind11/eigen.h>\n#include <pybind11/stl_bind.h>\n#include <pybind11/pybind11.h>\n"
    "#include <pybind11/operators.h>\n#include \"gtsam/base/utilities.h\"  // for RedirectCout.\n\n"
    "{includes}\n{boost_class_export}\n\nusing namespace std;\n\nnamespace py = pybind11;\n\n"
    "{submodules}\n\n{module_def} {{\n    m_.doc() = \"pybind11 wrapper of {module_name}\";\n\n"
    "{submodules_init}\n\n{wrapped_namespace}\n\n#include \"python/specializations.h\"\n\n}}\n\n",
    # a minimal one
    "// minimal {module_name}\n{includes}\n{boost_class_export}\n{submodules}\n{module_def} {{\n"
    "{submodules_init}\n{wrapped_namespace}\n}}\n",
    # with non-ASCII text in a comment
    "// Modèle — {module_name}\n{includes}\n{boost_class_export}\nnamespace py = pybind11;\n"
    "{submodules}\n{module_def} {{\n{submodules_init}\n{wrapped_namespace}\n}}\n",
]

PROBES = ["switch_inside_mkdir_window", "crash_between_wrapper_cpp_writes", "torn_nonempty_prefix",
          "stale_longer_file_overwritten", "wrapper_reused_3x_with_xml_overloads", "same_submodule_list_object_passed_again", "input_named_through_a_symlink", "stale_output_almost_equal_to_the_new_one",
          "ascii_locale_nonascii_input", "task_restarted", "shared_matlab_outdir",
          "submodule_stem_with_dot_i", "submodule_h_extension", "cwd_is_source_dir",
          "crash_in_open_write_window", "second_run_over_existing_outputs",
          "mkdir_race_lost_after_isdir_false", "xml_store_changed_between_calls", "hashseed_varied_build",
          "hashseed_build_with_2plus_submodules", "inputs_named_relative_to_cwd",
          "xml_source_relative_to_cwd", "decoy_neighbours_present",
          "canonical_configuration_all_three_scripts_succeed"]
# (debris_of_killed_incarnation is counted when it happens; the unchanged tree never leaves any)


def batches(tier):
    if tier == "thorough":
        return [dict(name="build", runs=40000, budget_s=700, per_run_timeout=180),
                dict(name="history", runs=20000, budget_s=350, per_run_timeout=180),
                dict(name="config", runs=1500, budget_s=250, per_run_timeout=240),
                dict(name="seeds", runs=3000, budget_s=250, per_run_timeout=240)]
    return [dict(name="build", runs=320, budget_s=45, per_run_timeout=120),
            dict(name="history", runs=220, budget_s=25, per_run_timeout=120),
            dict(name="config", runs=20, budget_s=25, per_run_timeout=180),
            dict(name="seeds", runs=64, budget_s=25, per_run_timeout=180)]


def vacuous(stats, probes):
    nc = stats.get("config_runs", 0)
    for which in ("ml", "py"):
        badc = stats.get("config_canonical_%s_failed" % which, 0)
        if nc >= 6 and badc > 0.5 * nc:
            return ("in %d of %d real-process configuration runs the canonical %s run itself fails: the batch compares "
                    "failures with failures" % (badc, nc, which))
    n, bad = stats.get("build_runs", 0), stats.get("solo_failed_runs", 0)
    if n >= 20 and bad > 0.5 * n:
        return ("in %d of %d builds the reference run of a task on its own (valid inputs, empty build directory) "
                "ends in an exception, so those builds compare failures with failures" % (bad, n))
    return None


def describe():
    return {
        "rule": "build: tape-generated cmake-style builds (1-2 pybind modules with submodule files, 0-2 "
                "MATLAB toolboxes, optional shared output dir / XML dir / stale outputs) run as baton-"
                "scheduled tasks with <=2 crash faults; history: tape-generated sequences of wrapper "
                "creations and wrap calls in one process; config: real script subprocesses under tape-"
                "chosen hash seed / locale / cwd.  A run is non-trivial if it had >=2 tasks or >=1 fired "
                "fault or >=3 history steps or >=2 configurations; distinct = distinct sha256 of "
                "(event log, final file system) resp. (op list, results).",
        "probe_names": PROBES,
        "real_vs_stub": {
            "real": ["gtwrap.* from /repo working tree", "scripts/pybind_wrap.py and scripts/matlab_wrap.py "
                     "(argparse path, via runpy)", "pyparsing 3.1.1", "xml.etree", "CPython io stack "
                     "(TextIOWrapper/BufferedWriter) above the simulated raw device",
                     "config batch: real processes, real files, real locale/hash-seed/cwd"],
            "stub": ["file system below the syscall line (in-memory; crash = Python-level buffers lost, "
                     "torn write(2) at page granularity)", "separate wrapper processes are threads of one "
                     "interpreter, switched only at simulated syscalls", "cmake/make (argv lists built "
                     "the way PybindWrap.cmake / MatlabWrap.cmake build them)"]},
        "assumptions": [
            "two invocations told to produce the same file are a usage error and are not generated",
            "PybindWrapper reuse across wrap_file/wrap/wrap_submodule calls is supported; MatlabWrapper reuse is not",
            "a process kill loses Python-level buffers only; data handed to write(2) is durable",
            "python -O (assert stripping) is not varied: the property does not list interpreter flags"],
        "side_observations": [
            "C16 (N/A here): multi-file builds are executed, but composition is not judged"],
    }


# ---------------------------------------------------------------------------
# scenario generation
# ---------------------------------------------------------------------------
def _tag(k):
    return "Q%s" % "ABCDEFGHIJKLMNOP"[k]


def _xml_for(models, tape, salt=""):
    """a simple Doxygen tree documenting the non-templated classes' methods"""
    classes = []
    for m in models:
        for c in m.classes():
            if c.tmpl is not None:
                continue
            members = []
            for f in c.of("method") + c.of("static"):
                if f.tmpl is not None:
                    continue
                members.append({"name": f.name, "params": [{"name": a.name, "tag": "declname"} for a in f.args],
                                "brief": "doc%s of %s::%s(%s)" % (salt, c.qname, f.name, ",".join(a.name for a in f.args)),
                                "detailed": "details \"quoted\" \\ backslash" if tape.bool(0.3, "xml-det") else None,
                                "param_docs": None, "returns": None})
            classes.append({"name": c.qname, "refid": DX.refid_for(c.qname), "members": members})
    return DX.build_tree({"classes": classes})


def _add_overload_pairs(model, tape):
    """append overloads that share parameter *names* (different types) -- the case
    the docstring extractor needs its per-parser overload counter for."""
    n = 0
    for c in model.classes():
        if c.tmpl is not None:
            continue
        for f in list(c.of("method")):
            if f.tmpl is None and f.args and tape.bool(0.5, "ovl-pair"):
                args = [G.Arg(G.Ty("double" if a.ty.name != "double" else "int"), a.name) for a in f.args]
                c.members.append(G.Func("method", f.name, G.Ret(G.Ty("void")), args, const=f.const))
                n += 1
    return n


def gen_build(tape):
    sc = {"inputs": {}, "stale": {}, "predirs": [R + "/src", R + "/build"], "tasks": []}
    src, build = R + "/src", R + "/build"
    # swarm: a scenario family per run.  0 = general mix; 1 = two MATLAB toolboxes generated into one
    # directory with a common package (the gtsam / gtsam_unstable layout); 2 = pybind module with
    # several submodule files
    family = tape.weighted([3, 2, 2], "family")
    sc["family"] = family
    if family == 1:
        n_py, n_ml = tape.weighted([3, 1], "n-py"), 2
    elif family == 2:
        n_py, n_ml = 1 + tape.weighted([3, 1], "n-py"), tape.weighted([3, 1], "n-ml")
    else:
        n_py = tape.weighted([1, 3, 1], "n-py")
        n_ml = tape.weighted([2, 3, 2], "n-ml")
    if n_py + n_ml == 0:
        n_ml = 1
    ftag = [0]

    def newfile(stem, ext, profile, max_decls=5, ns_pool=None, force_ns=False):
        k = ftag[0]
        ftag[0] += 1
        m, lex, _ = G.generate(tape, profile, tag=_tag(k), max_decls=max_decls, ns_pool=ns_pool,
                               force_ns=force_ns)
        text = G.render(lex, tape)
        if profile == "pybind":
            text += _pair_template(tape, _tag(k))
        path = "%s/%s%s" % (src, stem, ext)
        if tape.bool(0.12, "input-is-a-symlink"):
            # the named input is a symbolic link to a file of another name elsewhere (a variant picked by a link,
            # a source tree assembled from links): the NAME given on the command line is what counts
            real = "%s/variants/%s_impl%s" % (src, stem.replace(".", "_"), tape.pick([ext, ".txt"], "real-ext"))
            sc["inputs"][real] = text.encode("utf-8")
            sc.setdefault("links", {})[path] = real if tape.bool(0.5, "absolute-link") else os.path.relpath(real, src)
            sc.setdefault("link_real", {})[path] = real
        else:
            sc["inputs"][path] = text.encode("utf-8")
        return path, m, text

    tpl_path = src + "/module.tpl"
    sc["inputs"][tpl_path] = TEMPLATES[tape.weighted([3, 2, 2], "tpl")].encode("utf-8")
    xml_dir = None
    all_models = []
    for j in range(n_py):
        mod = "mod%d" % j
        nsub = tape.small(3, "n-sub", p=0.55 if family != 2 else 0.85)
        main_path, m0, _ = newfile(tape.pick(["main", "gtsam", "core.v2"], "main-stem") + str(j), ".i", "pybind")
        models = [m0]
        subs = []
        for s in range(nsub):
            stem = tape.wpick([("geometry", 3), ("slam", 2), ("nav.imu", 1.2), ("linear.init", 0.8),
                               ("basis", 1)], "sub-stem") + "%d%d" % (j, s)
            ext = tape.wpick([(".i", 5), (".h", 1)], "sub-ext")
            p, m, _ = newfile(stem, ext, "pybind", max_decls=4)
            subs.append(p)
            models.append(m)
        all_models += models
        top_ns = tape.wpick([("", 4), ("gtsam", 2), ("ns1::inner", 1)], "top-ns")
        boost = tape.bool(0.3, "boost")
        ignore = []
        if tape.bool(0.2, "ignore"):
            cl = [c for mm in models for c in mm.classes()]
            if cl:
                ignore = [tape.pick(cl, "ignore-cls").qname]
        use_xml = tape.weighted([5, 2, 1, 2], "xml")    # none / real tree / missing dir / relative to the cwd
        xml_arg = xml_abs = ""
        if use_xml == 1:
            xml_dir = R + "/xml"
            xml_arg = xml_abs = xml_dir
        elif use_xml == 2:
            xml_arg = xml_abs = R + "/no-such-xml"
        elif use_xml == 3:
            # `--xml_source xml`: the folder of that name in the working directory (all tasks of this module
            # then run in the build directory); a folder of the same name next to the interface files is a
            # decoy with different documentation
            xml_dir = build + "/xml"
            xml_arg, xml_abs = "xml", xml_dir
            sc["xml_relative"] = True
        common = ["--module_name", mod, "--top_module_namespaces", top_ns, "--ignore"] + ignore + \
                 ["--template", tpl_path] + (["--use-boost-serialization"] if boost else []) + \
                 ["--xml_source", xml_arg]
        out_rel = tape.bool(0.3, "out-relative")
        out = ("%s.cpp" % mod) if out_rel else "%s/%s.cpp" % (build, mod)
        sc["tasks"].append({
            "name": "py%d-main" % j, "kind": "py-main", "mode": tape.weighted([3, 1], "mode"),
            "cwd": build, "locale": tape.wpick([("utf-8", 6), ("ascii", 1), ("latin-1", 1)], "locale"),
            "argv": ["pybind_wrap.py", "--src", ";".join([main_path] + subs), "--out", out] + common,
            "targets": ["%s/%s.cpp" % (build, mod)], "srcs": [main_path], "tpl": tpl_path, "xml": xml_abs,
        })
        for p in subs:
            base = os.path.basename(p)
            stem = base.rsplit(".", 1)[0]
            cwd = src if (tape.bool(0.15, "sub-cwd-src") and use_xml != 3) else build
            sc["tasks"].append({
                "name": "py%d-sub-%s" % (j, stem), "kind": "py-sub", "mode": tape.weighted([3, 1], "mode"),
                "cwd": cwd, "locale": tape.wpick([("utf-8", 6), ("ascii", 1), ("latin-1", 1)], "locale"),
                "argv": ["pybind_wrap.py", "--src", p, "--out", stem + ".cpp"] + common + ["--is_submodule"],
                "targets": ["%s/%s.cpp" % (cwd, stem)], "srcs": [p], "tpl": tpl_path, "xml": xml_abs,
            })
    if xml_dir:
        for fn, data in _xml_for(all_models, tape).items():
            sc["inputs"]["%s/%s" % (xml_dir, fn)] = data
    # decoys: plausible neighbours that are NOT inputs of any invocation (another edition of the docs next
    # to the interface files, a template named like an interface file, settings files).  Reading one is an
    # I2 violation, changing one an I1 violation, whatever the outputs look like.
    if tape.bool(0.6, "decoys"):
        sc["decoys"] = True
        if xml_dir != src + "/xml":
            for fn, data in _xml_for(all_models, tape, salt=" (decoy edition)").items():
                sc["inputs"]["%s/xml/%s" % (src, fn)] = data
        for t in list(sc["tasks"])[:3]:
            stem = os.path.basename(t["srcs"][0]).rsplit(".", 1)[0]
            sc["inputs"]["%s/%s.tpl" % (src, stem)] = b"// decoy template {module_def} {wrapped_namespace}\n"
        sc["inputs"][build + "/.gtwrap"] = b"[gtwrap]\nxml_source = /simroot/src/xml\nignore = Foo\n"
        sc["inputs"][src + "/wrap.cfg"] = b"top_module_namespaces = decoy\n"
    shared = n_ml == 2 and (family == 1 or tape.bool(0.6, "ml-shared-out"))
    for j in range(n_ml):
        mod = "tb%d" % j
        nfiles = 1 + (1 if tape.bool(0.3, "ml-2files") else 0)
        paths = []
        for s in range(nfiles):
            # toolboxes sharing an output directory also share package (namespace) names, as gtsam and
            # gtsam_unstable do: that is what makes their isdir -> makedirs windows overlap
            p, _, _ = newfile("toolbox%d_%d" % (j, s), tape.wpick([(".i", 3), (".h", 1)], "ml-ext"), "matlab",
                              ns_pool=["gtsam", "nav"] if shared else None,
                              force_ns=shared and (family == 1 or tape.bool(0.5, "force-ns")),
                              max_decls=3 if family == 1 else 5)
            paths.append(p)
        outdir = "%s/toolbox" % build if shared else "%s/tb%d" % (build, j)
        if tape.bool(0.5, "ml-outdir-exists"):
            sc["predirs"].append(outdir)
        rel = tape.bool(0.25, "ml-out-relative")
        loc = tape.wpick([("utf-8", 6), ("ascii", 1), ("latin-1", 1)], "locale")
        sc["tasks"].append({
            "name": "ml%d" % j, "kind": "ml", "mode": tape.weighted([3, 1], "mode"),
            "cwd": build, "locale": loc,
            "argv": ["matlab_wrap.py", "--src", ";".join(paths), "--module_name", mod, "--out",
                     os.path.relpath(outdir, build) if rel else outdir, "--top_module_namespaces", "",
                     "--ignore"] + (["--use-boost-serialization"] if tape.bool(0.15, "ml-boost") else []),
            "outdir": outdir, "srcs": paths, "tpl": None, "xml": "",
        })
    # some invocations name their inputs relative to their working directory
    for t in sc["tasks"]:
        if tape.bool(0.25, "relative-inputs"):
            a = t["argv"]
            i = a.index("--src") + 1
            a[i] = ";".join(os.path.relpath(p, t["cwd"]) for p in a[i].split(";"))
            if "--template" in a:
                j = a.index("--template") + 1
                a[j] = os.path.relpath(a[j], t["cwd"])
            t["relative_inputs"] = True
    sc["n_stale"] = tape.weighted([3, 2, 1], "n-stale")
    sc["stale_sel"] = [tape.choose(1000, "stale-sel") for _ in range(sc["n_stale"] * 2)]
    return sc


# ---------------------------------------------------------------------------
# task bodies (real code)
# ---------------------------------------------------------------------------
def _parse_top_ns(s):
    ns = s.split("::")
    if ns[0]:
        ns = [""] + ns
    return ns


def make_task_fn(spec):
    argv = spec["argv"]
    if spec["mode"] == 0:
        script = PY_SCRIPT if spec["kind"].startswith("py") else ML_SCRIPT

        def fn(task):
            runpy.run_path(script, run_name="__main__")
        return fn

    # the equivalent library call
    def opt(name, default=None):
        return argv[argv.index(name) + 1] if name in argv else default

    def ignore_list():
        i = argv.index("--ignore") + 1
        out = []
        while i < len(argv) and not argv[i].startswith("--"):
            out.append(argv[i])
            i += 1
        return out

    if spec["kind"].startswith("py"):
        def fn(task):
            from gtwrap.pybind_wrapper import PybindWrapper
            with open(opt("--template"), "r", encoding="UTF-8") as f:
                tpl = f.read()
            w = PybindWrapper(module_name=opt("--module_name"),
                              use_boost_serialization="--use-boost-serialization" in argv,
                              top_module_namespaces=_parse_top_ns(opt("--top_module_namespaces", "")),
                              ignore_classes=ignore_list(), module_template=tpl,
                              xml_source=opt("--xml_source", ""))
            if "--is_submodule" in argv:
                w.wrap_submodule(opt("--src"))
            else:
                w.wrap(opt("--src").split(";"), opt("--out"))
        return fn

    def fn(task):
        from gtwrap.matlab_wrapper import MatlabWrapper
        w = MatlabWrapper(module_name=opt("--module_name"),
                          top_module_namespace=_parse_top_ns(opt("--top_module_namespaces", "")),
                          ignore_classes=ignore_list(),
                          use_boost_serialization="--use-boost-serialization" in argv)
        w.wrap(opt("--src").split(";"), path=opt("--out"))
    return fn


def _pair_template(tape, tag):
    """now and then a serializable class template with TWO parameters: its instantiations have a comma in their
    C++ names (`Pair<int, double>`), which the Boost export macro cannot take, so pybind wrapping invents a
    typedef name for each -- a name that must be the same in every process"""
    if not tape.bool(0.3, "two-parameter-serializable-template"):
        return ""
    keys = tape.pick([["int", "string"], ["double"], ["size_t", "int", "bool"]], "pair-keys")
    return ("\ntemplate<K = {%s}, V = {%s}>\nclass Pair%s {\n  Pair%s();\n  void %s() const;\n  K first(const V& v) const;\n};\n"
            % (", ".join(keys), tape.pick(["double", "string"], "pair-value"), tag, tag,
               tape.pick(["serialize", "serializable"], "pair-ser")))


def _new_world(tape, sc, with_stale, fault_plan=None):
    w = W.World(tape, fault_plan=fault_plan, max_steps=6000)
    W.set_world(w)
    for d in sc["predirs"]:
        w.mkdirs(d)
    for p, data in sc["inputs"].items():
        w.put(p, data)
    for lp, target in sc.get("links", {}).items():
        w.symlink(lp, target)
    w.virtual_real[BUNDLED_TPL] = BUNDLED_TPL_BYTES
    if with_stale:
        for p, data in sc["stale"].items():
            w.put(p, data)
    return w


def _mk_task(spec, locale=None):
    return W.Task(spec["name"], make_task_fn(spec), cwd=spec["cwd"], argv=spec["argv"],
                  locale=locale or spec["locale"], meta=spec)


def _quiet():
    sys.stdout = io.StringIO()
    sys.stderr = io.StringIO()


def solo_reference(args):
    """(runs in a pristine fork) one task alone, fault-free, pristine file system."""
    W.reference_clock()
    sc, k = args
    W.install_seams()
    _quiet()
    w = _new_world(Tape(replay=[]), sc, with_stale=False)
    before_f, before_d = w.snapshot()
    t = w.add_task(_mk_task(sc["tasks"][k], locale="utf-8"))
    w.run()
    files = {p: d for p, d in w.files.items() if before_f.get(p) != d}
    removed = [p for p in before_f if p not in w.files]
    return {"state": t.state, "error": t.error, "files": files, "removed": removed,
            "dirs": sorted(w.dirs - before_d), "steps": t.steps}


def sequential_reference(args):
    """(pristine fork) all tasks one after the other in ONE interpreter, no faults,
    no stale files: separates schedule/crash dependence from leaked process state."""
    W.reference_clock()
    sc, force_utf8 = args
    W.install_seams()
    _quiet()
    w = _new_world(Tape(replay=[]), sc, with_stale=False)
    for spec in sc["tasks"]:
        w.add_task(_mk_task(spec, locale="utf-8" if force_utf8 else None))
    w.run()
    return {"files": dict(w.files), "dirs": sorted(w.dirs),
            "states": {t.name: (t.state, t.error) for t in w.tasks}}


# ---------------------------------------------------------------------------
# build batch
# ---------------------------------------------------------------------------
def _under(path, d):
    return path == d or path.startswith(d.rstrip("/") + "/")


def _is_ancestor(d, paths):
    return any(_under(p, d) for p in paths)


class BuildObserver:
    def __init__(self, sc, solos):
        self.sc = sc
        self.viol = []
        self.spec = {s["name"]: s for s in sc["tasks"]}
        self.targets = {}
        for s, so in zip(sc["tasks"], solos):
            self.targets[s["name"]] = set(so["files"]) | set(so["dirs"])
        self.inputs = set(sc["inputs"])
        self.preexisting = set()        # filled by run_build with everything on the file system at start
        self.touched = {}               # path -> {(task, incarnation)} that created or modified it
        self.completed = {}
        self.state_fps = set()
        self.pyprefixes = tuple({sys.prefix, sys.base_prefix, "/usr/lib/python3", "/usr/lib/python"})

    def add(self, inv, sig, detail):
        if len(self.viol) < 20:
            self.viol.append({"inv": inv, "sig": sig, "detail": detail})

    def allowed_write(self, spec, path, w=None):
        if spec["kind"] == "ml":
            return _under(path, spec["outdir"])
        if path in spec["targets"]:
            return True
        # a NEW file next to a target (e.g. a temporary that is renamed over the target) is not judged
        # at the moment it is written: whatever is left behind is judged at the end (I4: no extra file).
        # Touching a file that already existed and is not a target is a violation at once.
        if w is not None and os.path.dirname(path) in {os.path.dirname(t) for t in spec["targets"]} and \
                path not in self.preexisting and not any(path in tg for n, tg in self.targets.items()
                                                         if n != spec["name"]):
            return True
        return False

    def allowed_read(self, spec, path):
        if path in spec["srcs"] or path == spec["tpl"]:
            return True
        if path in [self.sc.get("link_real", {}).get(x) for x in spec["srcs"]]:
            return True         # the file a symlinked input leads to
        # Looking at the previous version of a file the task is asked to produce (compare before rewriting,
        # open for update) is not "reading something else": what matters is that the final content does not
        # depend on it, which I4 / H1 decide from the result.
        if spec["kind"] == "ml":
            return _under(path, spec["outdir"]) and path in self.targets.get(spec["name"], ())
        if path in spec["targets"]:
            return True
        if spec["xml"] and _under(path, spec["xml"]):
            return True
        # PybindWrapper.wrap() is given all files of the module but reads only the first; reading the
        # others as well would still be "its inputs"
        src_arg = [os.path.normpath(os.path.join(spec["cwd"], p))
                   for p in spec["argv"][spec["argv"].index("--src") + 1].split(";")]
        return path in src_arg or path in [self.sc.get("link_real", {}).get(x) for x in src_arg]

    def __call__(self, w, ev):
        step, tname, inc, op, path, res, n = ev
        spec = self.spec.get(tname)
        if spec is None:
            return
        kind = spec["kind"]
        if op in ("open-w", "open-a", "open-rw", "truncate", "mkdir", "unlink", "rmdir", "rename", "write"):
            ok = self.allowed_write(spec, path, w)
            if op == "mkdir" and not ok:
                # creating a missing ancestor directory of an asked-for target is not an extra output
                ok = _is_ancestor(path, spec.get("targets", []) + ([spec["outdir"]] if kind == "ml" else []))
            if op == "rename" and ok and isinstance(res, str) and res.startswith("ok:"):
                ok = self.allowed_write(spec, res[3:])
            if not ok and res not in ("ENOENT", "EEXIST", "EISDIR"):
                what = "input-overwritten" if path in self.inputs else "outside-target"
                self.add("I1", "I1:%s:%s" % (kind, what),
                         "task %s (%s) did %s on %s (result %s); asked-for targets: %s" %
                         (tname, " ".join(spec["argv"][:6]), op, path, res,
                          spec.get("targets") or spec.get("outdir")))
            if op in ("unlink", "rmdir", "rename") and str(res).startswith("ok"):
                if not self.allowed_write(spec, path):
                    pass
            if len(self.state_fps) < 64 and op in ("mkdir", "open-w"):
                self.state_fps.add(zlib.crc32(repr(sorted((p, len(d)) for p, d in w.files.items()
                                                          if _under(p, R + "/build"))).encode()))
        elif op in ("open-r",):
            if not self.allowed_read(spec, path):
                self.add("I2", "I2:%s:read-sim" % kind,
                         "task %s opened %s for reading (result %s): not one of its inputs" % (tname, path, res))
        elif op in ("open-real-r", "open-real-w", "mkdir-real", "unlink-real", "remove-real", "rmdir-real",
                    "rename-real"):
            if op == "open-real-r" and (path == BUNDLED_TPL or
                                        (path.startswith(GTWRAP_DIR) and path.endswith(".tpl"))
                                        or path.startswith(self.pyprefixes)):
                return
            self.add("I2" if op == "open-real-r" else "I1", "%s:%s:real-path" %
                     ("I2" if op == "open-real-r" else "I1", kind),
                     "task %s did %s on the real path %s" % (tname, op, path))
        elif op == "listdir":
            if not (self.allowed_read(spec, path) or self.allowed_write(spec, path) or
                    (spec["xml"] and _under(path, spec["xml"]))):
                self.add("I2", "I2:%s:listdir" % kind, "task %s listed %s" % (tname, path))


def mutation_hook_factory(obs):
    def hook(w, inc, path):
        tname = inc.task.name if inc else "-"
        if inc is not None:
            # who created / last touched each path (to recognise the debris of a killed process)
            obs.touched.setdefault(path, set()).add((tname, inc.no))
        for other, tg in obs.targets.items():
            if other != tname and path in tg and path not in obs.targets.get(tname, ()):
                obs.add("I3", "I3:foreign-damage", "task %s modified %s which belongs to task %s" %
                        (tname, path, other))
    return hook


def run_build(tape, ctx):
    sc = gen_build(tape)
    ntasks = len(sc["tasks"])
    # 1. pristine-process solo references (one fresh fork each)
    solos = []
    for k in range(ntasks):
        r = pool.run_isolated(solo_reference, (sc, k), 120)
        if "harness" in r:
            return {"harness": "solo-reference", "detail": r}
        solos.append(r)
    W.install_seams()
    _quiet()
    # stale outputs: longer junk at (a subset of) the future target paths + one unrelated file
    alltargets = sorted({p for so in solos for p in so["files"]})
    stale = {}
    for i in range(sc["n_stale"]):
        if not alltargets:
            break
        p = alltargets[sc["stale_sel"][2 * i] % len(alltargets)]
        want = [so["files"][p] for so in solos if p in so["files"]][0]
        size = len(want)
        sel = sc["stale_sel"][2 * i + 1]
        kind = sel % 9
        if kind <= 2 or not want:
            # what an older version of the interface left behind: longer junk
            stale[p] = (b"// STALE OUTPUT OF AN EARLIER RUN\n" * (size // 30 + 3 + sel % 7))
        elif kind == 3:
            stale[p] = b"// stale\n"                                     # much shorter
        elif kind == 4:
            stale[p] = want.replace(b"\n", b"\r\n")                       # the right text, converted to CRLF
        elif kind == 5:
            k = (sel // 9) % len(want)                                   # same size, one byte differs
            stale[p] = want[:k] + bytes([want[k] ^ 1]) + want[k + 1:]
        elif kind == 6:
            stale[p] = want[:-1]                                         # last byte (newline) missing
        elif kind == 7:
            stale[p] = want + b"  \n"                                    # trailing white space appended
        else:
            stale[p] = want                                              # already up to date
        if kind >= 4:
            sc["stale_near_miss"] = True
    sc["stale"] = stale
    unrelated = R + "/build/unrelated_keep_me.txt"
    stale_dirs = set()
    for p in stale:
        d = os.path.dirname(p)
        while d.startswith(R) and d != R:
            stale_dirs.add(d)
            d = os.path.dirname(d)
    # 2. crash plan from solo step counts
    ncrash = tape.weighted([5, 3, 2], "n-crash")
    crash_at = []
    for _ in range(ncrash):
        k = tape.choose(ntasks, "crash-task")
        g = tape.choose(max(1, solos[k]["steps"] + 1), "crash-gate")
        crash_at.append([sc["tasks"][k]["name"], g, False])

    def plan(w, task, op, path, info):
        for c in crash_at:
            if not c[2] and c[0] == task.name and task.inc_steps == c[1] and \
                    task.incarnations == 1 + sum(1 for d in crash_at if d[2] and d[0] == task.name):
                c[2] = True
                if op in ("write", "close"):
                    w.probe("crash_in_open_write_window")
                if task.meta["kind"] == "ml" and op == "open-w" and path.endswith("_wrapper.cpp") and \
                        any(e[3] == "close-w" and e[4] == path and e[1] == task.name for e in w.log):
                    w.probe("crash_between_wrapper_cpp_writes")
                return ("crash",)
        return None

    w = _new_world(tape, sc, with_stale=True, fault_plan=plan)
    w.put(unrelated, b"keep")
    before_f, before_d = w.snapshot()
    obs = BuildObserver(sc, solos)
    obs.preexisting = set(before_f) | set(before_d)
    w.observers.append(obs)
    w.mutation_hook = mutation_hook_factory(obs)
    tasks = [w.add_task(_mk_task(s)) for s in sc["tasks"]]
    w.run(switch_p=0.35, chase_p=0.5)

    # probes
    for s in sc["tasks"]:
        if s["kind"] == "py-sub":
            base = os.path.basename(s["srcs"][0])
            if ".i" in base[:-2]:
                w.probe("submodule_stem_with_dot_i")
            if base.endswith(".h"):
                w.probe("submodule_h_extension")
            if s["cwd"] == R + "/src":
                w.probe("cwd_is_source_dir")
        if s.get("relative_inputs"):
            w.probe("inputs_named_relative_to_cwd")
        if sc.get("xml_relative") and s["kind"].startswith("py"):
            w.probe("xml_source_relative_to_cwd")
        if sc.get("decoys"):
            w.probe("decoy_neighbours_present")
        if sc.get("links"):
            w.probe("input_named_through_a_symlink")
        if s["locale"] == "ascii" and \
                any(any(b > 127 for b in sc["inputs"][sc.get("link_real", {}).get(p, p)])
                    for p in s["srcs"] + ([s["tpl"]] if s.get("tpl") else [])):
            w.probe("ascii_locale_nonascii_input")
    if len({s.get("outdir") for s in sc["tasks"] if s["kind"] == "ml"}) == 1 and \
            sum(1 for s in sc["tasks"] if s["kind"] == "ml") == 2:
        w.probe("shared_matlab_outdir")
    if stale:
        w.probe("stale_longer_file_overwritten")
    if sc.get("stale_near_miss"):
        w.probe("stale_output_almost_equal_to_the_new_one")
    # a context switch between a stat(ENOENT) and the mkdir it guards; and the race actually lost
    last_stat = {}
    seen_sw = False
    for (st, tn, inc, op, path, res, n) in w.log:
        if op == "stat" and res == "ENOENT":
            last_stat[tn] = (st, path)
        elif op == "mkdir" and tn in last_stat:
            if st - last_stat[tn][0] > 1 and not seen_sw:
                w.probe("switch_inside_mkdir_window")
                seen_sw = True
            if res == "EEXIST" and last_stat[tn][1] == path:
                w.probe("mkdir_race_lost_after_isdir_false")

    viol = list(obs.viol)
    # 3. I4: final state == sequential-build model
    exp_files = dict(before_f)
    exp_dirs = set(before_d)
    solo_failed = False
    for s, so in zip(sc["tasks"], solos):
        if so["state"] != "done":
            solo_failed = True
        exp_files.update(so["files"])
        for p in so["removed"]:
            exp_files.pop(p, None)
        exp_dirs |= set(so["dirs"])
    diffs = []
    for p in sorted(set(exp_files) | set(w.files)):
        a, b = exp_files.get(p), w.files.get(p)
        if a != b:
            kind = "missing" if b is None else ("extra" if a is None else
                                                ("truncated" if a.startswith(b) else
                                                 ("stale-tail" if b.startswith(a) else "content")))
            diffs.append((p, kind))
    for d in sorted(exp_dirs ^ w.dirs):
        diffs.append((d, "dir-missing" if d in exp_dirs else "dir-extra"))
    # debris of a killed process: a NEW file that only crashed incarnations ever touched (e.g. the
    # uniquely named temporary of an interrupted atomic write) is what a kill leaves behind in reality
    # too; it is not an output of the run that completed.  Counted, not judged.
    final_inc = {t.name: t.incarnations for t in tasks}
    debris = [p for p, k in diffs if k == "extra" and p not in obs.preexisting and obs.touched.get(p) and
              all(no < final_inc.get(tn, 0) for tn, no in obs.touched[p])]
    if debris:
        w.probe("debris_of_killed_incarnation", len(debris))
        diffs = [(p, k) for p, k in diffs if p not in debris]
    failed = [(t.name, t.state, t.error) for t in tasks if t.state != "done"]
    # I5: every task completes once faults stop
    for t, so in zip(tasks, solos):
        if so["state"] != "done":
            # the solo run itself fails (e.g. generator limitation): then the task must fail the same way
            if t.state == "done" or (t.error or ("",))[0] != (so["error"] or ("",))[0]:
                viol.append({"inv": "I5", "sig": "I5:%s:solo-fails-differently" % t.meta["kind"],
                             "detail": "task %s: solo %s/%s vs in-build %s/%s" %
                                       (t.name, so["state"], so["error"], t.state, t.error)})
            continue
        if t.state != "done":
            viol.append({"inv": "I5", "sig": "I5:%s:%s" % (t.meta["kind"], (t.error or (t.state,))[0]),
                         "detail": "task %s ended %s %s after %d incarnation(s); solo run completes. argv=%s "
                                   "locale=%s cwd=%s" % (t.name, t.state, t.error, t.incarnations,
                                                         " ".join(t.argv), t.locale, t.cwd)})
        elif t.steps > (2 * so["steps"] + 16) * t.incarnations:
            viol.append({"inv": "I5", "sig": "I5:%s:steps" % t.meta["kind"],
                         "detail": "task %s used %d gates over %d incarnation(s); solo needs %d" %
                                   (t.name, t.steps, t.incarnations, so["steps"])})
    if diffs and not any(v["inv"] == "I5" for v in viol):
        # triage: schedule/crash vs locale vs leaked process state
        cls = "schedule"
        seq = pool.run_isolated(sequential_reference, (sc, False), 180)
        if "harness" not in seq:
            exp_nostale = {p: d for p, d in exp_files.items() if p not in stale and p != unrelated}
            for p in stale:
                if p in exp_files:
                    exp_nostale[p] = exp_files[p]
            if {p: d for p, d in seq["files"].items()} != exp_nostale:
                seq2 = pool.run_isolated(sequential_reference, (sc, True), 180)
                cls = "locale" if ("harness" not in seq2 and seq2["files"] == exp_nostale) else "history"
        kinds = sorted({k for _, k in diffs})
        owner = "?"
        for p, _ in diffs:
            for s, so in zip(sc["tasks"], solos):
                if p in so["files"] or p in so["dirs"]:
                    owner = s["kind"]
        viol.append({"inv": "I4", "sig": "I4:%s:%s:%s" % (cls, owner, "+".join(kinds)),
                     "detail": "final build directory differs from the sequential model (%s): %s" %
                               (cls, "; ".join("%s [%s]" % d for d in diffs[:6]))})
    elif diffs:
        # a task failed (I5 above): the missing outputs are its consequence, not a second violation
        for v in viol:
            if v["inv"] == "I5":
                v["detail"] += " | consequently missing/different: %s" % \
                    "; ".join("%s [%s]" % d for d in diffs[:4])
                break

    inter = hashlib.sha256(repr([(a, b) for a, b, _ in w.schedule]).encode()).hexdigest()[:16]
    sample = {
        "tasks": [{"name": s["name"], "argv": " ".join(s["argv"]), "cwd": s["cwd"], "locale": s["locale"],
                   "mode": "script" if s["mode"] == 0 else "api"} for s in sc["tasks"]],
        "inputs": {p: (d.decode("utf-8", "replace")[:400] + ("..." if len(d) > 400 else ""))
                   for p, d in list(sc["inputs"].items())[:3]},
        "stale": sorted(stale), "crash_plan": [(a, b) for a, b, _ in crash_at],
        "schedule_prefix": ["%s:%s" % (a, b) for a, b, _ in w.schedule[:40]],
        "gates": w.step, "switches": w.switches,
    }
    trace = ["%d %s#%d %s %s -> %s (%s)" % ev for ev in w.log[-120:]]
    return {
        "violations": viol, "digest": w.digest(),
        "nontrivial": ntasks >= 2 or bool(w.faults_fired),
        "stats": {"build_runs": 1, "tasks": ntasks, "tasks_script_mode": sum(1 for s in sc["tasks"] if s["mode"] == 0),
                  "solo_failed_runs": int(solo_failed), "build_runs": 1, "context_switches": w.switches,
                  "runs_with_diffs": int(bool(diffs))},
        "faults": dict(w.faults_fired, **({"stale-output": len(stale)} if stale else {})),
        "probes": w.probes, "steps": w.step, "interleaving": inter, "state_fps": sorted(obs.state_fps)[:64],
        "sample": sample, "trace": trace if viol else None,
    }


# ---------------------------------------------------------------------------
# history batch
# ---------------------------------------------------------------------------
_VERSIONS = [
    "template<T> class VersionedQZ {\n  VersionedQZ();\n  double get(const T& value) const;\n};\n"
    "typedef VersionedQZ<double> VersionedOfDoubleQZ;\n"
    "class PlainVersionedQZ {\n  PlainVersionedQZ();\n  int first() const;\n};\n",
    "template<T> class VersionedQZ {\n  VersionedQZ(int n);\n  void set(const T& value);\n  size_t size() const;\n};\n"
    "typedef VersionedQZ<double> VersionedOfDoubleQZ;\n"
    "class PlainVersionedQZ {\n  PlainVersionedQZ();\n  int second(double x) const;\n};\n",
]


def gen_history(tape):
    h = {"inputs": {}, "predirs": [R + "/src", R + "/build"], "ops": [], "wrappers": []}
    src = R + "/src"
    ntext = 2 + tape.small(2, "n-texts", p=0.5)
    models = []
    texts = []
    # version skew: the first and the last text (and the two MATLAB inputs) are an earlier and a later version
    # of one interface -- the same template, typedef and class NAMES with other members -- as when a long-lived
    # process wraps a file again after it was edited
    skew = tape.bool(0.6, "version-skew")
    h["skew"] = skew
    for k in range(ntext):
        m, _, _ = G.generate(tape, "pybind", tag=_tag(k), max_decls=4)
        n_ovl = _add_overload_pairs(m, tape)
        lex, _ = m.lexemes()
        text = G.render(lex, tape)
        if skew and k in (0, ntext - 1):
            text = _VERSIONS[0 if k == 0 else 1] + text
        p = "%s/file%d.i" % (src, k)
        h["inputs"][p] = text.encode("utf-8")
        models.append(m)
        texts.append((p, text, n_ovl))
    mm, mlex, _ = G.generate(tape, "matlab", tag=_tag(9), max_decls=4)
    h["inputs"][src + "/tool.i"] = ((_VERSIONS[0] if skew else "") + G.render(mlex, tape)).encode("utf-8")
    mm2, mlex2, _ = G.generate(tape, "matlab", tag=_tag(9), max_decls=3)
    h["inputs"][src + "/tool2.i"] = ((_VERSIONS[1] if skew else "") + G.render(mlex2, tape)).encode("utf-8")
    # the XML store exists in two editions (as after re-running Doxygen) and can go missing
    h["xml_variants"] = [_xml_for(models, tape), _xml_for(models, tape, salt=" (2nd edition)")]
    for fn, data in h["xml_variants"][0].items():
        h["inputs"]["%s/xml/%s" % (R, fn)] = data
    h["tpl"] = TEMPLATES[tape.weighted([3, 2, 2], "tpl")]
    # an ignore list naming one class of the texts (and one that does not exist)
    plain = sorted(c.qname for m in models for c in m.classes() if c.tmpl is None)
    h["ignore_pool"] = ([tape.pick(plain, "ignored-class")] if plain else []) + ["gtsam::NoSuchClass"]
    mplain = sorted(c.qname for c in mm.classes() if c.tmpl is None)
    h["mignore_pool"] = ([tape.pick(mplain, "m-ignored-class")] if mplain else [""])
    nops = 2 + tape.small(6, "n-ops", p=0.75)
    nw = 0
    for i in range(nops):
        choices = [("wrap_file", 5), ("wrap", 2), ("wrap_submodule", 2), ("new", 1.5), ("matlab", 1), ("xml", 1.2)]
        kind = tape.wpick(choices, "op") if nw else "new"
        if kind == "new":
            h["wrappers"].append({
                "module_name": "mod%d" % nw,
                "top": tape.wpick([("", 4), ("gtsam", 1)], "top-ns"),
                "boost": tape.bool(0.4, "boost"),
                "xml": tape.wpick([(R + "/xml", 3), ("", 2), (R + "/missing", 0.5)], "xml"),
                "ignore": h["ignore_pool"] if tape.bool(0.35, "use-ignore-list") else [],
            })
            nw += 1
            h["ops"].append({"op": "new", "w": nw - 1})
            continue
        if kind == "matlab":
            h["ops"].append({"op": "matlab", "out": "%s/build/tbx%d" % (R, i), "boost": tape.bool(0.2, "boost"),
                             "src": "tool2.i" if tape.bool(0.4, "matlab-later-version") else "tool.i",
                             "ignore": h["mignore_pool"] if tape.bool(0.3, "m-use-ignore") else [""]})
            continue
        if kind == "xml":
            # the documentation store changes behind the same path: other edition / missing / back
            h["ops"].append({"op": "xml", "variant": tape.weighted([2, 2, 1], "xml-variant")})
            continue
        wi = tape.choose(nw, "which-wrapper")
        fi = tape.choose(ntext, "which-text")
        if kind == "wrap_file":
            h["ops"].append({"op": "wrap_file", "w": wi, "file": fi,
                             "sub": tape.wpick([(None, 3), ([], 1), (["a", "b"], 1)], "submods")})
        elif kind == "wrap":
            h["ops"].append({"op": "wrap", "w": wi, "file": fi, "out": "%s/build/out%d.cpp" % (R, i)})
        else:
            h["ops"].append({"op": "wrap_submodule", "w": wi, "file": fi, "cwd": "%s/build" % R})
    h["texts"] = [(p, n) for p, _, n in texts]
    return h


def _hist_apply(h, wrappers, op):
    """perform one op with the real library; returns a comparable result"""
    from gtwrap.matlab_wrapper import MatlabWrapper
    from gtwrap.pybind_wrapper import PybindWrapper
    kind = op["op"]
    if kind == "xml":
        world = W.WORLD
        for p in [p for p in world.files if p.startswith(R + "/xml/")]:
            del world.files[p]
        if op["variant"] < 2:
            for fn, data in h["xml_variants"][op["variant"]].items():
                world.put("%s/xml/%s" % (R, fn), data)
        return ("ok", None)
    if kind == "new":
        o = h["wrappers"][op["w"]]
        # option objects are shared by all wrappers of the process, as in a script that builds them once
        sh = h.setdefault("_shared_subs", {})
        top = sh.setdefault(("top", o["top"]), _parse_top_ns(o["top"]))
        ign = sh.setdefault(("ignore", tuple(o["ignore"])), list(o["ignore"]))
        wrappers[op["w"]] = PybindWrapper(module_name=o["module_name"],
                                          top_module_namespaces=top,
                                          use_boost_serialization=o["boost"], ignore_classes=ign,
                                          module_template=h["tpl"], xml_source=o["xml"])
        return ("ok", None)
    world = W.WORLD
    before = dict(world.files)
    try:
        if kind == "matlab":
            sh = h.setdefault("_shared_subs", {})
            mw = MatlabWrapper(module_name="tool", top_module_namespace=sh.setdefault(("mtop",), [""]),
                               ignore_classes=sh.setdefault(("mignore", tuple(op.get("ignore", [""]))),
                                                            list(op.get("ignore", [""]))),
                               use_boost_serialization=op["boost"])
            mw.wrap([R + "/src/" + op.get("src", "tool.i")], path=op["out"])
            ret = None
        else:
            wr = wrappers[op["w"]]
            path = h["texts"][op["file"]][0]
            if kind == "wrap_file":
                text = world.files[path].decode("utf-8")
                sub = op["sub"]
                if sub is not None:
                    # the caller keeps ONE list of submodule names and hands the same object to every call,
                    # as a user script would (`subs = ["a", "b"]` once, then several wrap_file calls)
                    sub = h.setdefault("_shared_subs", {}).setdefault(tuple(sub), list(sub))
                    if len(sub) and h["_shared_subs"].get(("used",) + tuple(op["sub"])):
                        world.probe("same_submodule_list_object_passed_again")
                    h["_shared_subs"][("used",) + tuple(op["sub"])] = True
                ret = wr.wrap_file(text, module_name="m%d" % op["file"], submodules=sub)
            elif kind == "wrap":
                wr.wrap([path], op["out"])
                ret = None
            else:
                wr.wrap_submodule(path)
                ret = None
    except Exception as e:      # the library's own failure is data to compare
        return ("raise", type(e).__name__, str(e)[:200])
    changed = {p: hashlib.sha256(d).hexdigest() for p, d in world.files.items() if before.get(p) != d}
    return ("ok", ret, sorted(changed.items()))


def history_reference(args):
    """(pristine fork) the op alone on a freshly created wrapper"""
    W.reference_clock()
    h, i = args
    h.pop("_shared_subs", None)      # a pristine process has pristine option objects
    W.install_seams()
    _quiet()
    w = W.World(Tape(replay=[]))
    W.set_world(w)
    for d in h["predirs"]:
        w.mkdirs(d)
    for p, data in h["inputs"].items():
        w.put(p, data)
    w.virtual_real[BUNDLED_TPL] = BUNDLED_TPL_BYTES
    op = h["ops"][i]
    out = {}

    def body(task):
        wrappers = {}
        for prev in h["ops"][:i]:
            if prev["op"] == "xml":       # the inputs as they are at this point of the history
                _hist_apply(h, wrappers, prev)
        if "w" in op and op["op"] != "new":
            _hist_apply(h, wrappers, {"op": "new", "w": op["w"]})
        out["r"] = _hist_apply(h, wrappers, op)
    w.add_task(W.Task("ref", body, cwd=op.get("cwd", R + "/build")))
    w.run()
    return out.get("r", ("task-failed",))


def run_history(tape, ctx):
    h = gen_history(tape)
    refs = []
    for i, op in enumerate(h["ops"]):
        if op["op"] in ("new", "xml"):
            refs.append(("ok", None))
            continue
        r = pool.run_isolated(history_reference, (h, i), 120)
        if isinstance(r, dict) and "harness" in r:
            return {"harness": "history-reference", "detail": r}
        refs.append(r)
    W.install_seams()
    _quiet()
    w = W.World(tape)
    W.set_world(w)
    for d in h["predirs"]:
        w.mkdirs(d)
    for p, data in h["inputs"].items():
        w.put(p, data)
    w.virtual_real[BUNDLED_TPL] = BUNDLED_TPL_BYTES
    results = []
    reuse = {}

    def body(task):
        wrappers = {}
        for op in h["ops"]:
            task.cwd = op.get("cwd", R + "/build")
            # each op starts from the same pristine files as its reference
            for p in [p for p in w.files if p.startswith(R + "/build/")]:
                del w.files[p]
            w.dirs = {d for d in w.dirs if not d.startswith(R + "/build/")}
            results.append(_hist_apply(h, wrappers, op))
    w.add_task(W.Task("hist", body, cwd=R + "/build"))
    w.run()
    viol = []
    if len(results) != len(h["ops"]):
        return {"harness": "history-task-died", "detail": repr(w.tasks[0].error)}
    for i, (op, got, exp) in enumerate(zip(h["ops"], results, refs)):
        if op["op"] != "new" and "w" in op:
            reuse[op["w"]] = reuse.get(op["w"], 0) + 1
            o = h["wrappers"][op["w"]]
            if reuse[op["w"]] >= 3 and o["xml"] == R + "/xml" and h["texts"][op["file"]][1] > 0:
                w.probe("wrapper_reused_3x_with_xml_overloads")
        if got != exp:
            prior = [o["op"] for o in h["ops"][:i] if o.get("w") == op.get("w") and o["op"] != "new"]
            what = "raise" if got[0] == "raise" and exp[0] != "raise" else \
                ("no-raise" if exp[0] == "raise" and got[0] != "raise" else "output")
            xml = "xml" if ("w" in op and h["wrappers"][op["w"]]["xml"] == R + "/xml") else "noxml"
            viol.append({"inv": "H1", "sig": "H1:%s:%s:%s" % (op["op"], what, xml),
                         "detail": "op #%d %s on wrapper %s after %d earlier call(s) %s: result differs from a "
                                   "pristine process: got %s, pristine %s" %
                                   (i, op["op"], op.get("w"), len(prior), prior, _short(got), _short(exp))})
            break
    digest = hashlib.sha256(repr((h["ops"], results)).encode()).hexdigest()
    sample = {"ops": h["ops"], "wrappers": h["wrappers"],
              "first_input": h["inputs"][h["texts"][0][0]].decode("utf-8", "replace")[:500]}
    nreal = sum(1 for o in h["ops"] if o["op"] not in ("new", "xml"))
    if any(o["op"] == "xml" for o in h["ops"]):
        w.probe("xml_store_changed_between_calls")
    return {"violations": viol, "digest": digest, "nontrivial": nreal >= 3,
            "stats": {"history_runs": 1, "history_ops": nreal,
                      "ops_that_raise_consistently": sum(1 for g in results if g[0] == "raise")},
            "faults": {}, "probes": w.probes, "steps": nreal, "sample": sample}


def _short(r):
    s = repr(r)
    return s if len(s) < 300 else s[:300] + "..."


# ---------------------------------------------------------------------------
# config batch (real processes, real files; every varied source is tape-chosen)
# ---------------------------------------------------------------------------
ENV_VARIANTS = [
    ("C.UTF-8", {"LC_ALL": "C.UTF-8"}),
    ("C-default", {"LC_ALL": "C"}),
    ("POSIX", {"LC_ALL": "POSIX"}),
    ("unset", {}),
    ("C-ascii", {"LC_ALL": "C", "PYTHONCOERCECLOCALE": "0", "PYTHONUTF8": "0"}),
]


def run_config(tape, ctx):
    tmp = tempfile.mkdtemp(prefix="verif-c14-")
    try:
        srcd, build, other = [os.path.join(tmp, d) for d in ("src", "build", "else where")]
        for d in (srcd, build, other):
            os.makedirs(d)
        m, lex, _ = G.generate(tape, "pybind", tag="QA", max_decls=5)
        py_text = G.render(lex, tape) + _pair_template(tape, "QA")
        m2, lex2, _ = G.generate(tape, "matlab", tag="QB", max_decls=4)
        ml_text = G.render(lex2, tape)
        if tape.bool(0.5, "ml-function-with-trailing-defaults"):
            # trailing default arguments make the MATLAB generator expand one declaration into several overloads
            ml_text += "\nvoid tuneQB(int a, double b = 0.5, int c = 3);\nclass KnobQB {\n  KnobQB();\n  void turn(double by = 1.5) const;\n};\n"
        py_src = os.path.join(srcd, "main.i")
        sub_src = os.path.join(srcd, tape.pick(["sub.i", "part.two.i"], "sub-name"))
        more_subs = [os.path.join(srcd, n) for n in ["geometry.i", "slam.i", "nav.i"][:tape.choose(4, "n-more-subs")]]
        ml_src = os.path.join(srcd, "tool.i")
        tpl = os.path.join(srcd, "m.tpl")
        for p, t in [(py_src, py_text), (sub_src, py_text), (ml_src, ml_text),
                     (tpl, TEMPLATES[tape.weighted([3, 2, 2], "tpl")])] + [(q, "class X {};\n") for q in more_subs]:
            with open(p, "w", encoding="utf-8") as f:
                f.write(t)
        boost = tape.bool(0.3, "boost")
        nconf = 2 + tape.small(2, "n-conf", p=0.6)
        outs = []
        confs = []
        # the subprocesses run a scratch copy of the working tree's package and scripts: the MATLAB wrapper reads
        # gtwrap/matlab_wrapper/matlab_wrapper.tpl next to its own source, a git-ignored file that a fresh checkout
        # lacks (the test suite creates it on first run) -- without it every configuration fails alike and K1
        # compares failures with failures
        tree_copy = os.path.join(tmp, "tree")
        shutil.copytree(os.path.join(REPO, "gtwrap"), os.path.join(tree_copy, "gtwrap"),
                        ignore=shutil.ignore_patterns("__pycache__", "*.pyc"))
        shutil.copytree(os.path.join(REPO, "scripts"), os.path.join(tree_copy, "scripts"),
                        ignore=shutil.ignore_patterns("__pycache__", "*.pyc"))
        tpl_copy = os.path.join(tree_copy, "gtwrap", "matlab_wrapper", "matlab_wrapper.tpl")
        if not os.path.exists(tpl_copy):
            with open(tpl_copy, "wb") as f:
                f.write(BUNDLED_TPL_BYTES)
        py_script = os.path.join(tree_copy, "scripts", "pybind_wrap.py")
        ml_script = os.path.join(tree_copy, "scripts", "matlab_wrap.py")
        nonascii = any(ord(c) > 127 for c in py_text + ml_text)
        for ci in range(nconf):
            if ci == 0:
                conf = {"hashseed": "0", "env": 0, "cwd": 0, "rerun": False}
            else:
                conf = {"hashseed": tape.pick(["0", "1", "2", "4294967295", "random"], "hashseed"),
                        "env": tape.weighted([3, 2, 1, 1, 2], "env"),
                        "cwd": tape.choose(4, "cwd"),
                        "rerun": tape.bool(0.3, "rerun"),
                        # the interpreter's own switches are environment too: -O strips `assert` statements,
                        # -X dev / warnings change nothing a generator may depend on
                        "pyopt": tape.wpick([("", 5), ("1", 2), ("2", 1)], "PYTHONOPTIMIZE"),
                        # ... and so is the date: the same run tomorrow, next month, next year, at another hour
                        "clock": tape.wpick([("", 3), ("86400", 1), ("2764800", 1), ("34304833", 2), ("-40000000", 1)],
                                            "clock-shift"),
                        # ... and who runs it, where: user, home, host name, time zone, terminal width, scratch directory
                        "who": tape.bool(0.4, "other-user-and-host")}
            confs.append(conf)
            cwd = [build, srcd, other, "/"][conf["cwd"]]
            outdir = os.path.join(tmp, "out%d" % ci)
            os.makedirs(outdir)
            env = {k: v for k, v in os.environ.items() if not k.startswith(("LC_", "LANG", "PYTHON"))}
            env.update(ENV_VARIANTS[conf["env"]][1])
            env["PYTHONHASHSEED"] = conf["hashseed"]
            if conf.get("pyopt"):
                env["PYTHONOPTIMIZE"] = conf["pyopt"]
            env["PYTHONPATH"] = tree_copy
            if conf.get("clock"):
                env["PYTHONPATH"] = os.path.join(os.path.dirname(os.path.dirname(os.path.abspath(__file__))),
                                                 "sim", "fakeclock") + os.pathsep + tree_copy
                env["VERIF_FAKE_CLOCK_SHIFT"] = conf["clock"]
            env["PYTHONDONTWRITEBYTECODE"] = "1"
            if conf.get("who"):
                scratch_dir = os.path.join(tmp, "scratch tmp %d" % ci)
                os.makedirs(scratch_dir, exist_ok=True)
                env.update({"USER": "buildbot", "LOGNAME": "buildbot", "USERNAME": "buildbot", "HOME": scratch_dir,
                            "HOSTNAME": "ci-worker-17", "TZ": "Pacific/Kiritimati", "COLUMNS": "43", "LINES": "11",
                            "TMPDIR": scratch_dir, "TERM": "dumb", "NO_COLOR": "1"})

            def rel(p, _cwd=cwd):
                return os.path.relpath(p, _cwd) if _cwd != "/" else p
            # submodule outputs land in the cwd: run that one from a per-config directory
            subcwd = os.path.join(outdir, "subcwd")
            os.makedirs(subcwd)
            cmds = [
                ([sys.executable, py_script, "--src", ";".join([rel(py_src), rel(sub_src)] + [rel(q) for q in more_subs]),
                  "--module_name", "mod",
                  "--out", rel(os.path.join(outdir, "mod.cpp")), "--top_module_namespaces", "", "--ignore",
                  "--template", rel(tpl), "--xml_source", ""] + (["--use-boost-serialization"] if boost else []),
                 cwd),
                ([sys.executable, py_script, "--src", sub_src, "--module_name", "mod", "--out", "x.cpp",
                  "--top_module_namespaces", "", "--ignore", "--template", tpl, "--is_submodule",
                  "--xml_source", ""], subcwd),
                ([sys.executable, ml_script, "--src", rel(ml_src), "--module_name", "tool", "--out",
                  rel(os.path.join(outdir, "tb")), "--top_module_namespaces", "", "--ignore"], cwd),
            ]
            status = []
            for rep in range(2 if conf["rerun"] else 1):
                status = []
                for cmd, c in cmds:
                    p = subprocess.run(cmd, cwd=c, env=env, capture_output=True, timeout=120)
                    err = p.stderr.decode("utf-8", "replace").strip().splitlines()
                    status.append((p.returncode, err[-1][:160] if (p.returncode and err) else ""))
            tree = {}
            for root, _, files in os.walk(outdir):
                for fn in files:
                    fp = os.path.join(root, fn)
                    with open(fp, "rb") as f:
                        tree[os.path.relpath(fp, outdir)] = hashlib.sha256(f.read()).hexdigest()
            outs.append((status, sorted(tree.items())))
        viol = []
        probes = {}
        if all(st[0] == 0 for st in outs[0][0]):
            probes["canonical_configuration_all_three_scripts_succeed"] = 1
        for ci in range(1, nconf):
            if confs[ci]["rerun"]:
                probes["second_run_over_existing_outputs"] = 1
            if ENV_VARIANTS[confs[ci]["env"]][0] == "C-ascii" and nonascii:
                probes["ascii_locale_nonascii_input"] = 1
            if outs[ci] != outs[0]:
                a, b = outs[0], outs[ci]
                if [s[0] for s in a[0]] != [s[0] for s in b[0]]:
                    which = [("py-main", "py-sub", "ml")[i] for i in range(3) if a[0][i][0] != b[0][i][0]]
                    what = "exit-status:" + "+".join(which)
                else:
                    what = "bytes"
                varied = []
                if confs[ci]["env"] != 0:
                    varied.append("locale=" + ENV_VARIANTS[confs[ci]["env"]][0])
                if confs[ci]["hashseed"] != "0":
                    varied.append("hashseed")
                if confs[ci]["cwd"] != 0:
                    varied.append("cwd")
                if confs[ci]["rerun"]:
                    varied.append("rerun")
                key = "locale" if ("locale=C-ascii" in varied and "exit-status" in what) else "config"
                viol.append({"inv": "K1", "sig": "K1:%s:%s" % (key, what),
                             "detail": "outputs under configuration %r differ from the canonical run %r: %s vs %s"
                                       % (confs[ci], confs[0], _short(b[0]), _short(a[0]))})
                break
        digest = hashlib.sha256(repr((confs, outs)).encode()).hexdigest()
        return {"violations": viol, "digest": digest, "nontrivial": nconf >= 2,
                "stats": {"config_runs": 1, "configurations": nconf, "real_subprocesses": 3 * nconf,
                          "config_canonical_ml_failed": int(outs[0][0][2][0] != 0),
                          "config_canonical_py_failed": int(outs[0][0][0][0] != 0)},
                "faults": {}, "probes": probes, "steps": 3 * nconf,
                "sample": {"confs": confs, "py_input": py_text[:300]}}
    finally:
        shutil.rmtree(tmp, ignore_errors=True)


# ---------------------------------------------------------------------------
# seeds batch: the same simulated build, executed sequentially in fresh interpreters that differ only
# in PYTHONHASHSEED (the in-simulator batches all run under the harness's own hash seed)
# ---------------------------------------------------------------------------
def seq_digest_main():
    """child side (fresh interpreter): tape record on stdin -> JSON {path: sha256} + task states on stdout"""
    import json
    values = json.load(sys.stdin)
    tape = Tape(replay=values)
    sc = gen_build(tape)
    real_stdout = sys.stdout
    W.install_seams()
    _quiet()
    w = _new_world(Tape(replay=[]), sc, with_stale=False)
    for spec in sc["tasks"]:
        w.add_task(_mk_task(spec, locale="utf-8"))
    w.run()
    out = {"files": {p: hashlib.sha256(d).hexdigest() for p, d in sorted(w.files.items())
                     if p not in sc["inputs"]},
           "states": {t.name: [t.state, (t.error or [""])[0]] for t in w.tasks}}
    real_stdout.write(json.dumps(out, sort_keys=True) + "\n")
    real_stdout.flush()


def run_seeds(tape, ctx):
    import json
    sc = gen_build(tape)
    record = list(tape.record)
    seeds = tape.shuffle(["0", "1", "2", "3", "12345", "4294967295", "777"], "hashseeds")[:2 + tape.choose(2, "n-seeds")]
    outs = []
    for hs in seeds:
        env = dict(os.environ)
        env["PYTHONHASHSEED"] = hs
        env["VERIF_NO_REEXEC"] = "1"
        p = subprocess.run([sys.executable, os.path.join(os.path.dirname(os.path.dirname(os.path.abspath(__file__))),
                                                         "run_check.py"), "C14", "--seq-digest"],
                           input=json.dumps(record).encode(), capture_output=True, env=env, timeout=200)
        if p.returncode != 0:
            return {"harness": "seq-digest-child", "detail": p.stderr.decode("utf-8", "replace")[-1500:]}
        outs.append(json.loads(p.stdout.decode().strip().splitlines()[-1]))
    viol = []
    for hs, o in zip(seeds[1:], outs[1:]):
        if o != outs[0]:
            diff = sorted(k for k in set(o["files"]) | set(outs[0]["files"])
                          if o["files"].get(k) != outs[0]["files"].get(k))
            kinds = sorted({sc_kind for d in diff for t in sc["tasks"] for sc_kind in [t["kind"]]
                            if d in t.get("targets", []) or (t["kind"] == "ml" and _under(d, t["outdir"]))})
            viol.append({"inv": "K2", "sig": "K2:hashseed:%s" % ("+".join(kinds) or "states"),
                         "detail": "the same build under PYTHONHASHSEED=%s and =%s differs in %s (task states %s vs %s)"
                                   % (seeds[0], hs, diff[:5], outs[0]["states"], o["states"])})
            break
    nsub = sum(1 for t in sc["tasks"] if t["kind"] == "py-sub")
    digest = hashlib.sha256(repr((seeds, outs)).encode()).hexdigest()
    return {"violations": viol, "digest": digest, "nontrivial": True,
            "stats": {"seeds_runs": 1, "fresh_interpreters": len(seeds), "tasks": len(sc["tasks"])},
            "faults": {}, "probes": {"hashseed_varied_build": 1, "hashseed_build_with_2plus_submodules": int(nsub >= 2)},
            "steps": len(sc["tasks"]) * len(seeds),
            "sample": {"hashseeds": seeds, "tasks": [" ".join(t["argv"])[:200] for t in sc["tasks"]]}}


def run_one(batch, tape, ctx):
    if batch == "seeds":
        return run_seeds(tape, ctx)
    if batch == "build":
        return run_build(tape, ctx)
    if batch == "history":
        return run_history(tape, ctx)
    if batch == "config":
        return run_config(tape, ctx)
    raise ValueError(batch)
