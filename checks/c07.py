"""C07 -- input is either fully understood or loudly rejected, never half-used.

One wrapper invocation per run (both scripts and both library entry points) over
the simulated file system; the *stored bytes of the input* are damaged by
token-level storage faults, or the read fails with an I/O error.

Oracles (DESIGN.md section 4, C07):
  O1 accepted  => token bag of the input (outside comments) == token bag of the
                  tree the tool built (captured at Module.parseString, before
                  template instantiation rewrites it);
  O2 definitely-invalid text (unbalanced {} or (), a last token that cannot end a
     declaration, a stray non-starter token between top-level declarations, a
     misspelt keyword in front of a body, an unreadable input) => the run fails;
  O3 a failing run creates/modifies nothing;
  O4 a succeeding run's outputs equal those of the same bytes in a pristine,
     empty output location, and pre-existing unrelated files are untouched;
  O5 the run ends within a simulated-step budget (parser-element attempts);
  O6 accepted  => what was understood is used: every non-templated class and every enumeration in the
     tree(s) the tool built is named somewhere in the outputs the run wrote ("never half-used").
"""
import errno
import hashlib
import io
import os
import re
import runpy
import sys

import gtwrap.interface_parser as P
from gen import interface as G
from gen import lexer as L
from gen import unparse as U
from sim import pool
from sim import world as W
from sim.tape import Tape

from . import c14 as B       # shared: templates, script paths, bundled template handling

PROP = "C07"
TIMEOUT_IS_VIOLATION = True      # "a failing run terminates": see sim/driver.py (confirmed alone, 240 s)
TIMEOUT_CONFIRM_S = 240
R = W.SIMROOT
ENTRIES = ["py-main-script", "py-sub-script", "ml-script", "py-main-api", "py-sub-api", "ml-api"]
FOREIGN_ALNUM = ["\u00f6", "\u00df", "\u0434", "\u00e5", "\u00b2", "\u1d40", "\u4e2d", "\uff13", "\u00e9", "\u03b1", "\u0663"]
STRAY_NONSTARTERS = [")", "]", ",", "=", "@@", "$"]
STRAY_ANY = [";", "}", "{", "(", ")", ",", "*", "&", "@", "<", ">", "const", "class", "static", "virtual",
             "template", "typedef", "namespace", "enum", "int", "Foo", "x", "::", "=", "pair", "operator+",
             "#", "#pragma", "#define", "\\", "%", "!",
             # C++ that interface authors paste from headers and that is not in the dialect
             "noexcept", "override", "final", "explicit", "inline", "mutable", "volatile", "constexpr", "friend",
             "public:", "private:", "typename", "struct", "throw()", "= 0", "= default", "= delete",
             "[[nodiscard]]", "&&", "noexcept(true)", "extern", "unsigned", "long",
             # characters editors and broken transfers leave behind
             "\x00", "\x1a", "\x0c", "\ufeff", "\u00a0"]
CPP_TAIL = ["noexcept", "override", "final", "noexcept(false)", "throw()", "= 0", "= default", "= delete", "volatile",
            "&&", "const noexcept", "noexcept override", "-> int"]
CPP_HEAD = ["explicit", "inline", "constexpr", "friend", "mutable", "extern", "public:", "private:", "[[nodiscard]]",
            "typename", "struct", "unsigned", "long"]
MISSPELL = {"class": ["clas", "Class", "klass"], "namespace": ["namespce", "Namespace"],
            "enum": ["enumm", "Enum"]}
PROBES = ["accepted_after_corruption", "rejected_after_corruption", "multi_file_matlab",
          "file_ends_in_line_comment_no_newline", "prior_outputs_present", "read_error_injected",
          "eio_mid_read", "truncated_inside_declaration", "must_reject_case", "valid_input_accepted", "crlf_line_endings",
          "o4_reference_compared", "nonascii_input", "failed_after_parsing", "declared_names_sought_in_outputs"]


def batches(tier):
    if tier == "thorough":
        return [dict(name="corrupt", runs=150000, budget_s=800, per_run_timeout=120),
                dict(name="valid", runs=30000, budget_s=250, per_run_timeout=120),
                dict(name="readerr", runs=20000, budget_s=120, per_run_timeout=120),
                dict(name="latefail", runs=30000, budget_s=200, per_run_timeout=120)]
    return [dict(name="corrupt", runs=4000, budget_s=50, per_run_timeout=60),
            dict(name="valid", runs=600, budget_s=15, per_run_timeout=60),
            dict(name="readerr", runs=400, budget_s=10, per_run_timeout=60),
            dict(name="latefail", runs=900, budget_s=15, per_run_timeout=60)]


def vacuous(stats, probes):
    ok, bad = probes.get("valid_input_accepted", 0), probes.get("valid_input_rejected", 0)
    if ok + bad >= 20 and ok < 0.5 * (ok + bad):
        return ("%d of %d uncorrupted generated inputs are rejected: 'accepted' runs are too few for the token "
                "accounting to mean anything" % (bad, ok + bad))
    return None


def describe():
    return {
        "rule": "a valid interface file (or 1-3 files for the MATLAB entry points, with tape-chosen final "
                "characters) is generated, 0-3 token-level storage corruptions (delete / duplicate / swap / "
                "stray token / bracket deletion / truncation at token or byte / block duplication / stray "
                "non-starter between declarations / misspelt keyword) or a read error are applied, and one "
                "real wrapper invocation runs to completion.  Non-trivial = at least one corruption or fault "
                "or >= 2 input files; distinct = distinct sha256 of (event log, final file system, outcome).",
        "probe_names": PROBES,
        "real_vs_stub": {
            "real": ["gtwrap.interface_parser / template_instantiator / pybind_wrapper / matlab_wrapper from "
                     "/repo working tree", "scripts/*.py via runpy", "pyparsing 3.1.1"],
            "stub": ["file system (simulated); storage corruption = the stored bytes are altered before the "
                     "task reads them", "parser step clock = count of pyparsing _parseNoCache calls"]},
        "assumptions": [
            "O2 is asserted only for corruptions that are invalid by construction or by a counting argument; "
            "for anything else either outcome is accepted",
            "any exception type / non-zero exit counts as a loud rejection",
            "write-side I/O errors (disk full while writing outputs) are outside the statement and not injected",
            "the oracle looks at the tree as built by Module.parseString (attribute names of the tree are trusted)"],
        "side_observations": [],
    }


# ---------------------------------------------------------------------------
def _assert_no_comment_openers(lexemes):
    for lx in lexemes:
        if lx.startswith(('"', "'")):
            continue
        if "//" in lx or "/*" in lx:
            raise AssertionError("generator emitted a comment opener inside lexeme %r" % lx)


KEYWORDS_NOT_TYPES = {"class", "namespace", "template", "typedef", "virtual", "static", "const", "enum", "struct",
                      "operator", "return", "This"}
LATE_KINDS = [("drop-default", 3), ("rename-typedef-target", 1)]


def corrupt(lexemes, starts, tape, n, late=False, ml=False):
    """apply n token-level corruptions; returns (lexemes, [kinds], must_reject, cut_bytes_fraction)"""
    lex = list(lexemes)
    kinds = []
    must_reject = False
    cut_frac = None
    pristine = [True]      # nothing applied so far (positions in `starts` still valid)
    for _ in range(n):
        if not lex:
            break
        kind = tape.wpick(LATE_KINDS, "late-corruption") if late else \
            tape.wpick([("delete", 4), ("duplicate", 3), ("swap", 3), ("stray", 3), ("del-bracket", 2),
                           ("trunc-lex", 2), ("trunc-bytes", 2), ("dup-block", 1), ("stray-toplevel", 2),
                           ("misspell", 2), ("stray-qualifier", 1.5), ("sig-tail", 2), ("member-head", 1.5), ("drop-default", 1.5), ("mangle-include", 1),
                           ("list-edge", 2.5), ("bad-byte", 0.8), ("foreign-letter", 1.2)],
                          "corruption")
        i = tape.choose(len(lex), "pos")
        if kind == "delete":
            del lex[i]
        elif kind == "duplicate":
            lex.insert(i, lex[i])
        elif kind == "swap":
            if i + 1 < len(lex):
                lex[i], lex[i + 1] = lex[i + 1], lex[i]
        elif kind == "stray":
            lex.insert(i, tape.pick(STRAY_ANY, "stray-tok"))
        elif kind == "stray-qualifier":
            # a stray qualifier token next to a type: after a closing '>' or before an identifier
            idx = [k for k, t in enumerate(lex) if t == ">" or t == "typedef"]
            q = tape.pick(["*", "&", "@", "const"], "qualifier")
            if tape.bool(0.5, "qualifier-after-type-name"):
                # between a type name and what follows it in a declaration: its `&` / `*` / `@` marker, or the
                # declared name (`T const& x`, `const T const& x`, `T const f()`, `T* * x`)
                isid = lambda t: t.replace("_", "a").replace("::", "a").isalnum() and not t[0].isdigit()
                after = [k for k in range(len(lex) - 2)
                         if isid(lex[k]) and lex[k] not in KEYWORDS_NOT_TYPES and
                         (lex[k + 1] in ("&", "*", "@") or
                          (isid(lex[k + 1]) and lex[k + 1] not in KEYWORDS_NOT_TYPES and
                           lex[k + 2] in (",", ")", "(", "=", ";")))]
                if after:
                    k = after[tape.choose(len(after), "which-type-name")]
                    lex.insert(k + 1, q)
                    kinds.append("stray-qualifier:after-type-name")
                    pristine[0] = False
                    continue
            if idx:
                k = idx[tape.choose(len(idx), "which-type")]
                lex.insert(k + 1 if (lex[k] == "typedef" or q != "const") else k, q)
            else:
                lex.insert(i, q)
        elif kind == "mangle-include":
            # damage inside a directive lexeme: misspelt / spaced / truncated #include
            idx = [k for k, t in enumerate(lex) if t.startswith("#include")]
            if idx:
                k = idx[tape.choose(len(idx), "which-include")]
                body = lex[k][len("#include"):]
                lex[k] = tape.pick(["#inclde", "# include", "#includes", "#incl", "#INCLUDE", "#import"], "mangled") + body
            else:
                lex.insert(i, tape.pick(["#pragma once", "#define X 1", "#"], "directive"))
        elif kind == "rename-typedef-target":
            # the typedef now names a template that does not exist: parses, fails at instantiation
            idx = [k for k, t in enumerate(lex) if t == "typedef" and k + 1 < len(lex)]
            if idx:
                k = idx[tape.choose(len(idx), "which-typedef")]
                lex[k + 1] = lex[k + 1] + "Missing"
                if pristine[0]:
                    # a typedef of a template that is declared nowhere: a misspelt name, invalid by construction
                    must_reject = True
            else:
                kind = "noop"
        elif kind == "drop-default":
            # the `= value` of one argument is lost (two adjacent tokens): the text still parses, but a
            # defaulted argument may now precede a non-defaulted one, which only a generator validates
            idx = [k for k, t in enumerate(lex) if t == "=" and k + 2 < len(lex) and lex[k + 2] in (",", ")")]
            # those whose argument list has an earlier default as well (dropping it breaks the ordering rule)
            later = []
            for k in idx:
                j = k - 1
                while j >= 0 and lex[j] not in ("(", ")", ";", "{", "}"):
                    if lex[j] == "=":
                        later.append(k)
                        break
                    j -= 1
            if later and (late or tape.bool(0.7, "ordering-breaking-default")):
                idx = later
            if idx:
                k = idx[tape.choose(len(idx), "which-default")]
                if late and ml and idx is later and pristine[0] and tape.bool(0.5, "the-trailing-function"):
                    # the last default of the file belongs to the global function appended for this purpose: a
                    # defaulted argument now precedes a plain one in a declaration the MATLAB generator must
                    # wrap, which it refuses ("validation error"): invalid by construction
                    k = later[-1]
                    must_reject = True
                del lex[k:k + 2]
            else:
                kind = "noop"
        elif kind == "sig-tail":
            # a stray keyword/qualifier between the ')' that closes a signature and its ';' (the place
            # where the member kinds' grammar rules differ: only methods and operators take `const`)
            idx = [k for k, t in enumerate(lex) if t == ")" and k + 1 < len(lex) and lex[k + 1] in (";", "const")]
            if idx:
                k = idx[tape.choose(len(idx), "which-signature")]
                lex.insert(k + 1, tape.pick(["const", "static", "virtual", "*", "&", "@", "int", "const const"] + CPP_TAIL,
                                            "tail-token"))
            else:
                kind = "noop"
        elif kind == "member-head":
            # a stray keyword in front of a declaration (after ';', '{' or '}')
            idx = [k for k, t in enumerate(lex) if t in (";", "{", "}") and k + 1 < len(lex)]
            if idx:
                k = idx[tape.choose(len(idx), "which-head")]
                lex.insert(k + 1, tape.pick(["const", "static", "virtual", "class", "typedef", "template", "*", "&"] + CPP_HEAD,
                                            "head-token"))
            else:
                kind = "noop"
        elif kind == "list-edge":
            # damage at the edge of a comma-separated list (argument, enumerator, template-parameter,
            # instantiation lists): a dangling / leading / doubled comma, or the first / last element lost
            OPEN, CLOSE = ("(", "{", "<"), (")", "}", ">")
            how = tape.wpick([("comma-before-closer", 3), ("last-element-lost", 3), ("comma-after-opener", 2),
                              ("first-element-lost", 2), ("comma-doubled", 1)], "list-edge-how")
            commas = [k for k, t in enumerate(lex) if t == ","]
            done = False
            if how == "comma-before-closer":
                idx = [k for k, t in enumerate(lex) if t in CLOSE and k > 0 and lex[k - 1] not in OPEN + (",", ";")]
                if tape.bool(0.7, "closer-of-a-list") and commas:
                    # prefer closers of lists that already have a comma (a real list)
                    pref = []
                    for c in commas:
                        j = c + 1
                        while j < len(lex) and lex[j] not in OPEN + CLOSE + (";",):
                            j += 1
                        if j < len(lex) and lex[j] in CLOSE and lex[j - 1] != ",":
                            pref.append(j)
                    idx = sorted(set(pref)) or idx
                if idx:
                    lex.insert(idx[tape.choose(len(idx), "which-closer")], ",")
                    done = True
            elif how == "comma-after-opener":
                idx = [k for k, t in enumerate(lex) if t in OPEN and k + 1 < len(lex) and lex[k + 1] not in CLOSE + (",",)]
                if idx:
                    lex.insert(idx[tape.choose(len(idx), "which-opener")] + 1, ",")
                    done = True
            elif how == "last-element-lost" and commas:
                cand = []
                for c in commas:
                    j = c + 1
                    while j < len(lex) and lex[j] not in OPEN + CLOSE + (";", ","):
                        j += 1
                    if j < len(lex) and lex[j] in CLOSE and j > c + 1:
                        cand.append((c, j))
                if cand:
                    c, j = cand[tape.choose(len(cand), "which-last")]
                    del lex[c + 1:j]
                    done = True
            elif how == "first-element-lost" and commas:
                cand = []
                for c in commas:
                    j = c - 1
                    while j >= 0 and lex[j] not in OPEN + CLOSE + (";", ","):
                        j -= 1
                    if j >= 0 and lex[j] in OPEN and j < c - 1:
                        cand.append((j, c))
                if cand:
                    j, c = cand[tape.choose(len(cand), "which-first")]
                    del lex[j + 1:c]
                    done = True
            elif how == "comma-doubled" and commas:
                lex.insert(commas[tape.choose(len(commas), "which-comma")], ",")
                done = True
            if not done:
                kind = "noop"
            else:
                kind = "list-edge:" + how
        elif kind == "del-bracket":
            idx = [k for k, t in enumerate(lex) if t in ("{", "}", "(", ")")]
            if idx:
                del lex[idx[tape.choose(len(idx), "which-bracket")]]
            else:
                kind = "noop"
        elif kind == "trunc-lex":
            lex = lex[:i]
        elif kind == "trunc-bytes":
            cut_frac = (1 + tape.choose(97, "cut")) / 100.0
        elif kind == "bad-byte":
            # a byte that is not UTF-8 (0xFF, or a lone continuation byte) somewhere in the file: the text cannot
            # even be decoded, whatever surrounds the byte
            lex.insert(i, "\udcff" if tape.bool(0.5, "ff-or-continuation") else "\udc85")
            # ... unless an earlier byte-level truncation (applied last, to the rendered text) may cut the byte away
            must_reject = cut_frac is None
        elif kind == "foreign-letter":
            # a letter or digit of another script inside an identifier (a name typed on another keyboard layout, a
            # pasted superscript, a full-width digit): the dialect's identifiers are ASCII, the file is valid UTF-8.
            # (not after `=`: a default-value expression may hold any characters)
            # (nor anywhere after an `=` of the same statement.  The `=` inside an operator's name does not count
            #  since fix F25: before it, a failed `T operator== ( anything ) const ;` was re-read as a variable named
            #  `operator` with the initialiser `= ( anything ) const`, see section 6 of DESIGN.md)
            def _after_eq(k):
                j = k - 1
                while j >= 0 and lex[j] not in (";", "{", "}"):
                    if "=" in lex[j] and not lex[j].startswith("operator"):
                        return True
                    j -= 1
                return False
            idx = [k for k, t in enumerate(lex) if t.isascii() and t.replace("_", "a").isalnum() and
                   not t[0].isdigit() and not _after_eq(k)]
            # identifiers inside the argument list of an operator whose name contains `=` (`operator==`): the place
            # where defect F25 re-read the failed member as a variable with an initialiser -- aimed at half the time
            def _in_eq_operator_args(k):
                j = k - 1
                while j >= 0 and lex[j] not in (";", "{", "}"):
                    if lex[j].startswith("operator") and "=" in lex[j]:
                        return True
                    j -= 1
                return False
            aimed = [k for k in idx if _in_eq_operator_args(k)]
            if aimed and pristine[0] and tape.bool(0.5, "aim-at-operator-arguments"):
                idx = aimed
            if idx and pristine[0]:
                k = idx[tape.choose(len(idx), "which-identifier")]
                ch = tape.pick(FOREIGN_ALNUM, "foreign-char")
                at = 1 + tape.choose(len(lex[k]), "foreign-at")
                lex[k] = lex[k][:at] + ch + (lex[k][at + 1:] if tape.bool(0.5, "replace-or-insert") else lex[k][at:])
                must_reject = True
            else:
                kind = "noop"
        elif kind == "dup-block":
            if len(starts) >= 2 and pristine[0]:
                k = tape.choose(len(starts) - 1, "which-decl")
                blk = lex[starts[k]:starts[k + 1]]
                lex[starts[k]:starts[k]] = blk
            else:
                kind = "noop"
        elif kind == "stray-toplevel":
            if pristine[0]:
                k = tape.choose(len(starts), "which-boundary")
                lex.insert(starts[k], tape.pick(STRAY_NONSTARTERS, "nonstarter"))
                must_reject = True
            else:
                kind = "noop"
        elif kind == "misspell":
            idx = [k for k, t in enumerate(lex) if (t in MISSPELL or t in ("enum class", "enum struct"))
                   and k + 2 < len(lex) and lex[k + 2] == "{" and
                   lex[k + 1].replace("_", "a").isalnum()]
            if idx and pristine[0]:
                k = idx[tape.choose(len(idx), "which-kw")]
                base = lex[k].split(" ")[0]
                lex[k] = tape.pick(MISSPELL[base], "misspelling") + lex[k][len(base):]
                must_reject = True
            else:
                kind = "noop"
        kinds.append(kind)
        pristine[0] = False
        if must_reject:
            break       # invalid by construction: nothing later may repair it
    return lex, kinds, must_reject, cut_frac


TAILS = ["\n", "", " // end of file, no newline", " /* trailing */", "\n\n", "\n// last line\n"]


def gen_case(tape, batch):
    entry = ENTRIES[tape.choose(len(ENTRIES), "entry")]
    ml = entry.startswith("ml")
    case = {"entry": entry, "inputs": {}, "files": [], "predirs": [R + "/src", R + "/build"]}
    nfiles = 1 + (tape.small(2, "n-files", p=0.5) if ml else 0)
    ncorr = 0
    late = batch == "latefail"
    if batch == "corrupt":
        ncorr = 1 + tape.weighted([5, 3, 1], "n-corruptions")
    elif late:
        # input that PARSES but fails in a later pipeline stage (instantiation / generation): one
        # corruption that keeps the text in the grammar, in a file that has completed namespaces and
        # classes before the failing declaration
        ncorr = 1
    victim = tape.choose(nfiles, "victim") if ncorr else -1
    must_reject = False
    kinds_all = []
    for k in range(nfiles):
        m, lex, starts = G.generate(tape, "matlab" if ml else "pybind", tag="Q" + "ABC"[k], max_decls=4,
                                    force_ns=late, ns_pool=["gtsam", "nav"] if late else None)
        if late and k == victim:
            # a trailing function with two defaulted arguments (the last one is what may lose its default)
            f = G.Func("global", "lateQ" + "ABC"[k], G.Ret(G.Ty("void")),
                       [G.Arg(G.Ty("int"), "a", "1"), G.Arg(G.Ty("double"), "b", "0.5")])
            m.content.append(f)
            lex, starts = m.lexemes()
        _assert_no_comment_openers(lex)
        cut = None
        if k == victim:
            lex, kinds, must_reject, cut = corrupt(lex, starts, tape, ncorr, late=late, ml=ml)
            kinds_all = kinds
        text = G.render(lex, tape)
        if cut is not None:
            text = text[:max(0, int(len(text) * cut))]
        else:
            text += TAILS[tape.weighted([4, 2, 2, 1, 1, 1], "tail")]
        ext = tape.wpick([(".i", 4), (".h", 1)], "ext")
        path = "%s/part%d%s" % (R + "/src", k, ext)
        if tape.bool(0.06, "crlf"):
            text = text.replace("\n", "\r\n")        # a file edited on Windows: the same text to a text-mode reader
            case.setdefault("crlf", True)
        case["inputs"][path] = text.encode("utf-8", "surrogateescape")
        case["files"].append(path)
    case["corruptions"] = kinds_all
    case["must_reject_by_construction"] = must_reject
    case["tpl"] = R + "/src/m.tpl"
    case["inputs"][case["tpl"]] = B.TEMPLATES[tape.weighted([3, 2, 2], "tpl")].encode("utf-8")
    case["prior"] = tape.weighted([2, 2], "prior-outputs")
    case["boost"] = tape.bool(0.2, "boost")
    case["o4"] = tape.bool(0.3, "o4-sample")
    if entry.startswith("py-main"):
        extra = [R + "/src/other_sub.i"] if tape.bool(0.3, "extra-sub") else []
        for e in extra:
            case["inputs"][e] = b"class NotRead {};\n"
        case["argv"] = ["pybind_wrap.py", "--src", ";".join(case["files"] + extra), "--module_name", "mod",
                        "--out", R + "/build/mod.cpp", "--top_module_namespaces", "", "--ignore",
                        "--template", case["tpl"], "--xml_source", ""] + \
                       (["--use-boost-serialization"] if case["boost"] else [])
        case["targets"] = [R + "/build/mod.cpp"]
        case["kind"] = "py-main"
    elif entry.startswith("py-sub"):
        case["argv"] = ["pybind_wrap.py", "--src", case["files"][0], "--module_name", "mod", "--out", "x.cpp",
                        "--top_module_namespaces", "", "--ignore", "--template", case["tpl"],
                        "--is_submodule", "--xml_source", ""]
        stem = os.path.basename(case["files"][0]).rsplit(".", 1)[0]
        case["targets"] = ["%s/build/%s.cpp" % (R, stem)]
        case["kind"] = "py-sub"
    else:
        case["argv"] = ["matlab_wrap.py", "--src", ";".join(case["files"]), "--module_name", "tb", "--out",
                        R + "/build/tb", "--top_module_namespaces", "", "--ignore"] + \
                       (["--use-boost-serialization"] if case["boost"] else [])
        case["outdir"] = R + "/build/tb"
        case["kind"] = "ml"
    case["mode"] = 0 if entry.endswith("script") else 1
    case["name"] = "t"
    case["cwd"] = R + "/build"
    case["locale"] = "utf-8"
    case["srcs"] = case["files"]
    case["xml"] = ""
    return case


def _prior_files(case):
    if not case["prior"]:
        return {}, []
    if case["kind"] == "ml":
        d = case["outdir"]
        return ({d + "/OldClass.m": b"% old\n", d + "/+gtsam/Old.m": b"% old gtsam\n",
                 d + "/tb_wrapper.cpp": b"// stale wrapper of an earlier run\n" * 40},
                [d, d + "/+gtsam"])
    return ({case["targets"][0]: b"// stale output of an earlier run\n" * 50,
             R + "/build/keep.txt": b"keep"}, [])


class ParseHook:
    """records what Module.parseString was given and what it returned (unparsed at once)"""

    def __init__(self):
        self.calls = []
        self.orig = None
        self.broken = None

    def install(self):
        self.orig = P.Module.parseString
        hook = self

        def hooked(s):
            tree = hook.orig(s)
            try:
                u = U.unparse(tree)
            except Exception as e:      # the re-renderer does not know this tree: a harness matter, never a verdict
                hook.broken = "%s: %s" % (type(e).__name__, str(e)[:300])
                u = ""
            hook.calls.append((s, u))
            return tree
        P.Module.parseString = staticmethod(hooked)


def _setup_world(tape, case, with_prior, fault_plan=None, budget=None):
    w = W.World(tape, fault_plan=fault_plan, max_steps=4000)
    W.set_world(w)
    for d in case["predirs"]:
        w.mkdirs(d)
    for p, data in case["inputs"].items():
        w.put(p, data)
    w.virtual_real[B.BUNDLED_TPL] = B.BUNDLED_TPL_BYTES
    if with_prior:
        files, dirs = _prior_files(case)
        for d in dirs:
            w.mkdirs(d)
        for p, data in files.items():
            w.put(p, data)
    w.parse_step_budget = budget
    return w


def reference_outputs(case):
    """(pristine fork) same bytes, empty output location"""
    W.reference_clock()
    W.install_seams()
    B._quiet()
    w = _setup_world(Tape(replay=[]), case, with_prior=False)
    before_f, before_d = w.snapshot()
    t = w.add_task(B._mk_task(case))
    w.run()
    return {"state": t.state, "error": t.error,
            "files": {p: d for p, d in w.files.items() if before_f.get(p) != d},
            "dirs": sorted(w.dirs - before_d)}


def run_case(tape, batch):
    case = gen_case(tape, batch)
    W.install_seams()
    W.install_parse_counter()
    B._quiet()
    ntok = sum(len(L.scan(d.decode("utf-8", "replace"))[0]) for p, d in case["inputs"].items()
               if p in case["files"])
    budget = max(3000000, 20000 * ntok)
    plan = None
    fault = None
    if batch == "readerr":
        which = tape.choose(len(case["files"]) + (0 if case["kind"] == "ml" else 1), "read-victim")
        victim = (case["files"] + [case["tpl"]])[which]
        fk = tape.wpick([("EIO", 2), ("EACCES", 2), ("ENOENT", 2), ("EISDIR", 1), ("eio-mid", 2)], "read-fault")
        fault = (victim, fk)
        fired = [False]

        def plan(w, task, op, path, info):
            if op == "open-r" and path == victim and not fired[0]:
                fired[0] = True
                w.probe("read_error_injected")
                if fk == "eio-mid":
                    w.probe("eio_mid_read")
                    return ("eio-after", tape.choose(max(1, len(w.files.get(path, b""))), "eio-at"))
                return ("errno", getattr(errno, fk))
            return None
    w = _setup_world(tape, case, with_prior=True, fault_plan=plan, budget=budget)
    hook = ParseHook()
    hook.install()
    before_f, before_d = w.snapshot()
    t = w.add_task(B._mk_task(case))
    w.run()
    viol = []
    if hook.broken:
        return {"harness": "tree-renderer", "detail": hook.broken}
    ok = t.state == "done"
    ent = case["kind"]
    texts = [case["inputs"][p].decode("utf-8", "replace") for p in case["files"]]
    # which of the files the invocation is supposed to parse
    parsed_files = texts if ent == "ml" else texts[:1]

    # classify the input by the counting rules (independent lexer)
    # (for a list of files the rules are applied to the list as a whole: a declaration that
    #  continues in the next file is not demanded to be rejected)
    definitely_invalid = []
    # (a file list is read as the tool reads it since fix 1ff5a16: the files joined by a newline -- so a
    #  comment left open at the end of one file swallows the beginning of the next, for the oracle as for wrap)
    joined = "\n".join(parsed_files)
    alltoks = L.scan(joined)[0]
    bc = L.bracket_counts(alltoks)
    # Brackets must balance -- except inside a default-value / initialiser expression, where the grammar's
    # nested-expression rule lets one kind of bracket stand alone inside the other kind (`= { ) }`), and a
    # corruption can turn almost anything into such an initialiser (`class A = { ... };` is a variable named
    # A of type `class`; `T operator== (...) const;` is a variable named `operator`).  Every initialiser
    # needs an `=`: the counting argument is therefore applied only to text without any `=`.
    if (bc["{"] != bc["}"] or bc["("] != bc[")"]) and "=" not in alltoks:
        definitely_invalid.append("unbalanced-brackets")
    if alltoks and alltoks[-1] not in (";", "}", ">"):
        definitely_invalid.append("last-token-cannot-end-a-declaration")
        w.probe("truncated_inside_declaration")
    if case["must_reject_by_construction"]:
        definitely_invalid.append("stray-nonstarter-or-misspelt-keyword")
    if fault is not None and (fault[0] in (case["files"][:1] if ent != "ml" else case["files"]) or
                              fault[0] == case["tpl"]):
        # py-main reads only the first source; the template is always read by the script entry,
        # and by our api entry (which mimics the script)
        definitely_invalid.append("unreadable-input:%s" % fault[1])

    if t.state == "budget":
        viol.append({"inv": "O5", "sig": "O5:%s:step-budget" % ent,
                     "detail": "the run did not finish within %d parser steps (%d input tokens)" % (budget, ntok)})
    elif t.state == "failed" and t.error and t.error[0] == "Unsupported":
        return {"harness": "unsupported-os-facility", "detail": t.error[1]}
    elif ok:
        w.probe("accepted_after_corruption" if case["corruptions"] else "valid_input_accepted")
        if definitely_invalid:
            viol.append({"inv": "O2", "sig": "O2:%s:%s" % (ent, definitely_invalid[0].split(":")[0]),
                         "detail": "the run succeeded on input that cannot be a complete sequence of "
                                   "declarations (%s); corruptions=%s; input=%r" %
                                   (", ".join(definitely_invalid), case["corruptions"], texts[0][-300:])})
        # O1
        # what the tool understood: the trees Module.parseString returned during the run (one call for the
        # joined MATLAB sources today; a tool that parses file by file, or twice, is as good -- identical
        # calls are counted once).  A tool that reaches the grammar by another door leaves no call: then the
        # same text is parsed here with the tool's own parser (observation by fallback, probe-counted).
        calls = []
        for c in hook.calls:
            if c not in calls:
                calls.append(c)
        if not calls:
            try:
                tree = hook.orig("\n".join(parsed_files))
                calls = [("", U.unparse(tree))]
                w.probe("parse_result_observed_by_fallback")
            except U.UnparseError as e:
                return {"harness": "tree-renderer", "detail": str(e)[:300]}
            except Exception as e:
                if type(e).__name__ in ("ParseException", "ParseSyntaxException", "ParseFatalException"):
                    # no tree was produced during the run, and the tool's own parser says the text cannot be
                    # understood: the run must have failed, yet it reported success
                    viol.append({"inv": "O2", "sig": "O2:%s:success-without-a-parse" % ent,
                                 "detail": "the run succeeded although no parse tree was produced and the tool's own "
                                           "parser rejects the text (%s); corruptions=%s; input tail=%r" %
                                           (str(e)[:160], case["corruptions"], texts[0][-200:])})
                    calls = None
                else:
                    return {"harness": "parse-result-unobservable",
                            "detail": "the run succeeded without calling Module.parseString and parsing the text "
                                      "directly raises %s: %s" % (type(e).__name__, str(e)[:200])}
        if calls is not None:
            unparsed = "\n".join(u for _, u in calls)
            a = L.bag(L.normalise(L.scan(joined)[0]))
            b = L.bag(L.normalise(L.scan(unparsed)[0]))
            if a != b:
                miss, extra = L.bag_diff(a, b)
                cls = _classify_o1(parsed_files, b, miss, extra)
                viol.append({"inv": "O1", "sig": "O1:%s" % cls,
                             "detail": "accepted, but tokens are not accounted for in the tree: missing %s, "
                                       "invented %s; entry=%s corruptions=%s; input tail=%r" %
                                       (miss[:8], extra[:8], case["entry"], case["corruptions"],
                                        " | ".join(tx[-160:] for tx in parsed_files))})
            # O6: every class with a body and every enumeration the tool understood shows up in what it wrote
            wrote = {pth: d for pth, d in w.files.items() if before_f.get(pth) != d}
            haystack = "\n".join(wrote) + "\n" + "\n".join(d.decode("utf-8", "replace") for d in wrote.values())
            words = set(re.findall(r"[A-Za-z_][A-Za-z_0-9]*", haystack))
            absent = [n for n in _declared_names(L.scan(unparsed)[0]) if n not in words]
            w.probe("declared_names_sought_in_outputs")
            if absent and wrote:
                viol.append({"inv": "O6", "sig": "O6:%s:understood-but-unused" % ent,
                             "detail": "accepted, and the tree contains %s, but no output names them (a declaration "
                                       "was dropped between parsing and generation); entry=%s corruptions=%s; "
                                       "inputs=%r" % (absent[:6], case["entry"], case["corruptions"],
                                                      " | ".join(tx[-200:] for tx in parsed_files))})
        # O4
        prior_f, _ = _prior_files(case) if case["prior"] else ({}, [])
        for p, d in prior_f.items():
            owned = (ent != "ml" and p in case["targets"]) or (ent == "ml" and p.endswith("tb_wrapper.cpp"))
            if not owned and w.files.get(p) != d:
                viol.append({"inv": "O4", "sig": "O4:%s:unrelated-file-touched" % ent,
                             "detail": "pre-existing unrelated file %s was modified or removed" % p})
        if case["o4"]:
            ref = pool.run_isolated(reference_outputs, case, 90)
            if isinstance(ref, dict) and "harness" in ref:
                return {"harness": "o4-reference", "detail": ref}
            w.probe("o4_reference_compared")
            if ref["state"] != "done":
                viol.append({"inv": "O4", "sig": "O4:%s:reference-fails" % ent,
                             "detail": "succeeds with prior outputs present but fails in an empty output "
                                       "location: %s" % (ref["error"],)})
            else:
                got = {p: d for p, d in w.files.items() if before_f.get(p) != d or p in ref["files"]}
                if {p: got.get(p) for p in ref["files"]} != ref["files"] or \
                        any(p not in ref["files"] for p in got):
                    bad = sorted(p for p in set(got) | set(ref["files"]) if got.get(p) != ref["files"].get(p))
                    viol.append({"inv": "O4", "sig": "O4:%s:outputs-differ-from-pristine" % ent,
                                 "detail": "outputs differ from the run on the same bytes in an empty output "
                                           "location: %s" % bad[:6]})
    else:
        w.probe("rejected_after_corruption" if case["corruptions"] else "rejected")
        if hook.calls:
            w.probe("failed_after_parsing")      # the parser accepted the text; a later stage raised
        if batch == "valid":
            # not a C07 matter (a rejected valid file is loud); recorded so that a generator that leaves
            # the dialect is noticed
            w.probe("valid_input_rejected")
        # O3: a failing run creates or modifies nothing
        after_f, after_d = w.snapshot()
        if after_f != before_f or after_d != before_d:
            ch = sorted(p for p in set(after_f) | set(before_f) if after_f.get(p) != before_f.get(p))
            ch += sorted(after_d ^ before_d)
            writes = [e for e in w.log if e[3] in ("open-w", "open-a", "mkdir", "unlink", "rename") and
                      str(e[5]).startswith("ok")]
            viol.append({"inv": "O3", "sig": "O3:%s:failing-run-changed-outputs" % ent,
                         "detail": "the run failed with %s but changed: %s (first mutating op: %s)" %
                                   (t.error, ch[:6], writes[:1])})
    if definitely_invalid:
        w.probe("must_reject_case")
    if len(case["files"]) > 1:
        w.probe("multi_file_matlab")
    if any(tx.rstrip(" ").endswith("no newline") for tx in texts[:-1]):
        w.probe("file_ends_in_line_comment_no_newline")
    if case.get("crlf"):
        w.probe("crlf_line_endings")
    if case["prior"]:
        w.probe("prior_outputs_present")
    if any(ord(c) > 127 for tx in texts for c in tx):
        w.probe("nonascii_input")
    outcome = (t.state, (t.error or ("",))[0])
    digest = hashlib.sha256((w.digest() + repr(outcome)).encode()).hexdigest()
    sample = {"entry": case["entry"], "corruptions": case["corruptions"], "read_fault": fault,
              "outcome": outcome, "argv": " ".join(case["argv"]),
              "inputs": [tx[:500] for tx in texts], "parser_steps": w.parse_steps}
    return {"violations": viol, "digest": digest,
            "nontrivial": bool(case["corruptions"]) or fault is not None or len(case["files"]) > 1,
            "stats": {"runs": 1, "accepted": int(ok), "rejected": int(not ok),
                      "exc:%s" % outcome[1]: int(not ok), "parser_steps": w.parse_steps,
                      "entry:%s" % case["entry"]: 1},
            "faults": dict(w.faults_fired, **{"input-corruption:%s" % k: 1 for k in case["corruptions"]}),
            "probes": w.probes, "steps": w.step + w.parse_steps // 1000, "sample": sample,
            "trace": ["%d %s#%d %s %s -> %s (%s)" % ev for ev in w.log[-40:]] if viol else None}


QUALS = {"const", "*", "@", "&"}


def _declared_names(tokens):
    """names of the classes that have a body and are not class templates, and of the enumerations, in a token
    stream (an independent reading of the text the tree renders to)"""
    names = []
    n = len(tokens)
    for i, t in enumerate(tokens):
        if t == "class" and i + 1 < n and (i == 0 or tokens[i - 1] != "enum"):
            nm = tokens[i + 1]
            if not nm.replace("_", "a").isalnum() or nm[0].isdigit():
                continue
            # a body follows (possibly after `: Parent`), before any `;`
            j = i + 2
            while j < n and tokens[j] not in ("{", ";", "}", ")", "("):
                j += 1
            if j >= n or tokens[j] != "{":
                continue
            # class templates are instantiated under other names (or not at all)
            k = i - 1
            if k >= 0 and tokens[k] == "virtual":
                k -= 1
            if k >= 0 and tokens[k] == ">":
                continue
            names.append(nm)
        elif t == "enum" and i + 1 < n:
            j = i + 1
            if tokens[j] in ("class", "struct"):
                j += 1
            if j + 1 < n and tokens[j + 1] == "{" and tokens[j].replace("_", "a").isalnum():
                names.append(tokens[j])
    return names


def _strip_f7_positions(tokens):
    """drop qualifier tokens that sit inside a template instantiation list `= { ... }` directly
    within `template < ... >`, or inside a `typedef ... ;` statement (known finding F7)"""
    out = []
    i, n = 0, len(tokens)
    in_typedef = False
    tmpl_depth = 0      # inside template < ... >
    brace = 0
    while i < n:
        t = tokens[i]
        if t == "typedef":
            in_typedef = True
        elif t == ";" and in_typedef:
            in_typedef = False
        if t == "template" and i + 1 < n and tokens[i + 1] == "<":
            tmpl_depth = 1
            out += [t, "<"]
            i += 2
            continue
        if tmpl_depth:
            if t == "{":
                brace += 1
            elif t == "}":
                brace -= 1
            elif t == "<" and brace == 0:
                tmpl_depth += 1
            elif t == ">" and brace == 0:
                tmpl_depth -= 1
        if t in QUALS and ((tmpl_depth and brace > 0) or in_typedef):
            i += 1
            continue
        out.append(t)
        i += 1
    return out


def _classify_o1(parsed_files, tree_bag, miss, extra):
    """violation class used in the signature (so that a *different* way of losing tokens is
    still reported when one way is a listed finding)"""
    if extra:
        return "tokens-invented"
    # lost only because the files were glued together without a separator?
    glued = L.bag(L.normalise(L.scan("".join(parsed_files))[0]))
    if len(parsed_files) > 1 and glued == tree_bag:
        return "lost-at-file-boundary"
    if all(tok in QUALS for tok, _ in miss):
        toks = L.normalise(L.scan("\n".join(parsed_files))[0])
        stripped = _strip_f7_positions(toks)
        if L.bag(stripped) == tree_bag:
            return "dropped-qualifiers:template-list-or-typedef"
        # several corruptions may have put qualifiers at such positions AND elsewhere (a stray `typedef` in
        # front of a constructor makes its `const` arguments look like typedef qualifiers): the loss is the
        # listed one if every missing qualifier can be one of those that sit at the listed positions
        at_f7, _ = L.bag_diff(L.bag(toks), L.bag(stripped))
        at_f7 = dict(at_f7)
        if all(n <= at_f7.get(tok, 0) for tok, n in miss):
            return "dropped-qualifiers:template-list-or-typedef"
        return "dropped-qualifiers:elsewhere"
    return "tokens-lost"


def run_one(batch, tape, ctx):
    return run_case(tape, batch)
