"""C18 -- the MATLAB runtime header converts values without loss.

System S-mex without a generated gateway: mexsim/driver_runtime.cpp is compiled (per
check run, plain and with ASan+UBSan) against the working tree's matlab.h, the mock
MEX runtime and the GTSAM stand-ins, and executes tape-generated op scripts.

  R1 round trip: unwrap<T>(wrap<T>(v)) is bit-identical to v; vectors/matrices keep shape
     and element positions (also checked on the MATLAB-side array: column-major);
  R2 error instead of value: unwrap<scalar T> of an array that is not 1x1, and
     unwrap<Vector|Point2|Point3|Matrix> of a non-numeric array, raise the MEX error;
     an unwrap of what wrap of the same type produced never raises;
  R3 identity: unwrap_shared_ptr / unwrap_ptr of a wrapped handle designate the wrapped object;
  R4 lifetime: alive iff the model's reference multiset is non-empty, use_count equals the
     model's count, destroyed exactly once; a failed wrap leaks nothing;
  R5 memory: the ASan/UBSan build reports nothing and prints the same results.
R1/R2 are input sampling riding in the same driver; R3-R5 are the simulated histories.
"""
import hashlib
import re
import os
import shutil
import struct
import subprocess
import tempfile

PROP = "C18"
DERIVED_MATLAB_NAME = "gtsamunstable.partition.DerivedObjectWithAnUnusuallyLongMatlabClassNameToOutgrowFixedBuffers0123456789"
VERIF = os.path.dirname(os.path.dirname(os.path.abspath(__file__)))
MEXSIM = os.path.join(VERIF, "mexsim")
REPO = os.environ.get("VERIF_REPO", "/repo")
FRESH_DIGEST_OK = True

CLS = {"cell": 1, "struct": 2, "logical": 3, "char": 4, "double": 6, "single": 7, "int8": 8, "uint8": 9,
       "int16": 10, "uint16": 11, "int32": 12, "uint32": 13, "int64": 14, "uint64": 15}
ESIZE = {1: 0, 2: 0, 3: 1, 4: 2, 6: 8, 7: 4, 8: 1, 9: 1, 10: 2, 11: 2, 12: 4, 13: 4, 14: 8, 15: 8}
SCALARS = ["bool", "char", "uchar", "int", "size_t", "double"]
VECS = ["Vector", "Point2", "Point3", "Matrix"]
NONNUMERIC = (1, 2, 3, 4)
PROBES = ["nonscalar_to_scalar", "nonnumeric_to_vector_or_matrix", "empty_vector", "empty_matrix",
          "nan_or_inf_or_negzero", "negative_int", "size_t_above_2_63", "virtual_path_with_rtti",
          "virtual_path_rtti_cleared", "same_object_two_handles", "unwrap_ptr_called", "unload_with_live_handles",
          "delete_last_reference", "string_roundtrip", "derived_wrapped_as_base",
          "handle_address_recycled", "handle_address_recycled_by_another_class"]


def batches(tier):
    if tier == "thorough":
        return [dict(name="ops", runs=120000, budget_s=900, per_run_timeout=120)]
    return [dict(name="ops", runs=3000, budget_s=45, per_run_timeout=90)]


def describe():
    return {
        "rule": "a tape-generated script of 10-60 ops over wrap<T>/unwrap<T> for all supported T (extremes, "
                "NaN/inf/-0.0, empty and m x n shapes, strings over bytes 0x01-0xff up to 4097 long), tape-built arrays of the wrong "
                "kind, and handle histories (new object, wrap_shared_ptr plain/virtual with RTTI registry "
                "present or cleared, unwrap_shared_ptr, unwrap_ptr, keep/drop shared_ptr, delete handle, "
                "unload) runs in the compiled driver; every result line is checked against a Python model. "
                "Non-trivial = the script has >= 3 handle ops or >= 1 error-expectation op; distinct = distinct "
                "sha256 of (script, results).",
        "probe_names": PROBES,
        "real_vs_stub": {
            "real": ["matlab.h from /repo working tree, compiled with g++ 12 (-O1 and -fsanitize=address,undefined)"],
            "stub": ["mex.h / MEX runtime (mexsim/mex_runtime.cpp)", "gtsam::Vector/Matrix/Point2/Point3 stand-ins "
                     "(no Eigen here)", "the generated proxy constructor / collector / upcast / deconstructor "
                     "statements are transcribed in the driver", "no MATLAB: mxGetProperty copy semantics and "
                     "error unwinding are the mock's"]},
        "assumptions": [
            "strings over bytes 0x01-0xff (an embedded NUL cannot cross c_str()/mxCreateString); the mock's char "
            "arrays map one byte to one UTF-16 unit like a single-byte code page, so matlab.h is required to be "
            "byte-transparent -- what MATLAB's own code-page conversion does to non-ASCII bytes is outside the mock", "inputs the statement is silent about (numeric non-double to Vector, 1x1 of a "
            "foreign class to a scalar, ...) are exercised but either outcome is accepted",
            "mexErrMsg* is a C++ throw in the mock (real MATLAB longjmps)"],
        "side_observations": [],
    }


# ---------------------------------------------------------------------------
def _compile(tmp, flags, out):
    inc = os.path.join(tmp, "inc", "gtwrap")
    os.makedirs(inc, exist_ok=True)
    shutil.copy(os.path.join(REPO, "matlab.h"), os.path.join(inc, "matlab.h"))
    cmd = ["g++", "-std=gnu++17", "-g", "-w"] + flags + [
        "-I", os.path.join(tmp, "inc"), "-I", os.path.join(MEXSIM, "include"),
        "-I", os.path.join(MEXSIM, "standins"), "-o", out,
        os.path.join(MEXSIM, "driver_runtime.cpp"), os.path.join(MEXSIM, "mex_runtime.cpp")]
    return subprocess.Popen(cmd, stdout=subprocess.PIPE, stderr=subprocess.STDOUT)


def prepare(tier, seed):
    tmp = tempfile.mkdtemp(prefix="verif-c18-")
    p1 = _compile(tmp, ["-O1"], os.path.join(tmp, "drv"))
    p2 = _compile(tmp, ["-O1", "-fsanitize=address,undefined", "-fno-omit-frame-pointer"],
                  os.path.join(tmp, "drv_asan"))
    o1 = p1.communicate()[0].decode("utf-8", "replace")
    o2 = p2.communicate()[0].decode("utf-8", "replace")
    if p1.returncode or p2.returncode:
        shutil.rmtree(tmp, ignore_errors=True)
        # matlab.h from the working tree does not compile against the mock: the header may have started
        # to use MEX API the mock lacks (harness limitation) or it is broken (then nothing can be converted)
        raise RuntimeError("driver does not compile against the working tree's matlab.h:\n" + (o1 + o2)[-3000:])
    return {"tmp": tmp, "drv": os.path.join(tmp, "drv"), "drv_asan": os.path.join(tmp, "drv_asan")}


def cleanup(ctx):
    if ctx:
        shutil.rmtree(ctx["tmp"], ignore_errors=True)


# ---------------------------------------------------------------------------
def dhex(bits):
    return struct.pack("<Q", bits & 0xFFFFFFFFFFFFFFFF).hex()


DOUBLES = [0x0000000000000000, 0x8000000000000000, 0x3ff0000000000000, 0xbff8000000000000,
           0x7ff0000000000000, 0xfff0000000000000, 0x7ff8000000000000, 0x0000000000000001,
           0x7fefffffffffffff, 0xffefffffffffffff, 0x400921fb54442d18, 0x3fb999999999999a]


def gen_double(t):
    k = t.weighted([6, 3], "dbl-kind")
    if k == 0:
        return DOUBLES[t.choose(len(DOUBLES), "dbl")]
    hi = t.choose(1 << 16, "dbl-hi")
    lo = t.choose(1 << 16, "dbl-lo")
    bits = (hi << 48) | (lo << 16) | t.choose(1 << 16, "dbl-lo2")
    # avoid signalling NaNs (quiet bit clear with non-zero payload): copying may quiet them
    if (bits >> 52) & 0x7ff == 0x7ff and bits & 0xfffffffffffff and not bits & (1 << 51):
        bits |= 1 << 51
    return bits


def gen_value(t, ty):
    if ty == "bool":
        return t.choose(2, "bool")
    if ty == "char":
        return t.pick([0, 1, -1, 127, -128, 65, 97], "char")
    if ty == "uchar":
        return t.pick([0, 1, 255, 128, 127, 65], "uchar")
    if ty == "int":
        return t.pick([0, 1, -1, 2147483647, -2147483648, 123456, -7, 65536], "int")
    if ty == "size_t":
        return t.pick([0, 1, 4294967295, 4294967296, 1 << 63, (1 << 64) - 1, 9007199254740993, 42], "size_t")
    if ty == "double":
        return gen_double(t)
    if ty == "string":
        if t.bool(0.7, "short-string"):
            n = t.pick([0, 1, 2, 5, 17, 40], "strlen")
        else:
            # around every plausible fixed buffer size: powers of two and round decimal numbers, -1 / 0 / +1
            n = t.pick([8, 16, 32, 64, 80, 100, 128, 200, 255, 256, 260, 500, 512, 1000, 1024, 2000, 2048, 4096, 8192],
                       "strlen-edge") + t.pick([0, -1, 1], "strlen-off")
        if n > 65:
            # long strings: a repeating pattern (buffer-size slips depend on length, not on content)
            pat = bytes(1 + t.choose(255, "strbyte") for _ in range(7))
            return (pat * (n // 7 + 1))[:n]
        edge = [0x20, 0x09, 0x22, 0x25, 0x5c, 0x27, 0x0a, 0x0d, 0x7f, 0x80, 0xff, 0x01]
        out = bytearray()
        for i in range(n):
            if t.bool(0.25, "str-edge"):
                out.append(t.pick(edge, "str-edge-byte"))
            else:
                out.append(1 + t.choose(255, "strbyte"))
        return bytes(out)
    if ty in ("Vector", "Point2", "Point3"):
        n = {"Point2": 2, "Point3": 3}.get(ty) or t.wpick([(0, 3), (1, 3), (2, 3), (3, 3), (6, 3), (17, 1), (64, 1), (65, 1),
                                                          (257, 0.5), (1000, 0.3)], "veclen")
        return [gen_double(t) for _ in range(n)]
    if ty == "Matrix":
        m = t.wpick([(0, 3), (1, 3), (2, 3), (3, 3), (4, 3), (7, 1), (16, 0.7), (33, 0.5)], "rows")
        n = t.wpick([(0, 3), (1, 3), (2, 3), (3, 3), (4, 3), (5, 1), (16, 0.7), (31, 0.5)], "cols")
        return (m, n, [gen_double(t) for _ in range(m * n)])
    raise ValueError(ty)


def enc_value(ty, v):
    if ty in ("bool", "char", "uchar", "int", "size_t"):
        return str(v)
    if ty == "double":
        return dhex(v)
    if ty == "string":
        return v.hex() or "-"
    if ty in ("Vector", "Point2", "Point3"):
        return " ".join([str(len(v))] + [dhex(x) for x in v])
    m, n, vals = v
    return " ".join([str(m), str(n)] + [dhex(x) for x in vals])


class Model:
    def __init__(self):
        self.slots = {}      # slot -> dict
        self.held = {}       # hid -> serial
        self.derived = {}    # serial -> bool
        self.other = {}      # serial -> bool: an instance of the second, unrelated class
        self.next_slot = 1
        self.next_held = 1
        self.next_serial = 1
        self.rtti = False
        self.created = set()

    def counts(self):
        c = {}
        for s in self.held.values():
            c[s] = c.get(s, 0) + 1
        for sl in self.slots.values():
            if sl["kind"] == "object":
                c[sl["serial"]] = c.get(sl["serial"], 0) + 1
        return c


def gen_script(t):
    """-> list of (line, expectation dict)"""
    md = Model()
    ops = []
    n = 10 + t.choose(50, "n-ops")
    for _ in range(n):
        objs = sorted(s for s, v in md.slots.items() if v["kind"] == "object")
        vals = sorted(s for s, v in md.slots.items() if v["kind"] != "object")
        choices = [("wrap", 6), ("mk", 3), ("new", 2)]
        if vals:
            choices += [("unwrap-same", 6), ("unwrap-other", 4), ("free", 1)]
        if md.held:
            # right after a handle was deleted its heap block is the allocator's next candidate: wrap again at once
            choices += [("wsp", 16 if ops and ops[-2][1]["op"] == "del" else 4), ("drop", 2)]
        if objs:
            choices += [("usp", 4), ("uptr", 2), ("del", 2)]
        choices += [("rtti", 1), ("unload", 0.4)]
        op = t.wpick(choices, "op")
        if op == "wrap":
            ty = t.pick(SCALARS + ["string"] + VECS, "type")
            v = gen_value(t, ty)
            s = md.next_slot
            md.next_slot += 1
            md.slots[s] = {"kind": "wrapped", "type": ty, "value": v}
            ops.append(("wrap %s %s" % (ty, enc_value(ty, v)), {"op": "wrap", "type": ty, "value": v, "slot": s}))
        elif op == "mk":
            cname = t.pick(sorted(CLS), "mk-class")
            cls = CLS[cname]
            m, nn = t.pick([(1, 1), (0, 0), (1, 3), (3, 1), (2, 2), (0, 1), (1, 0), (2, 3)], "mk-dims")
            data = bytes(t.choose(256, "mk-byte") for _ in range(min(ESIZE[cls] * m * nn, 24)))
            cplx = 1 if (cls == 6 and t.bool(0.15, "complex")) else 0
            s = md.next_slot
            md.next_slot += 1
            md.slots[s] = {"kind": "made", "cls": cls, "m": m, "n": nn, "complex": cplx}
            ops.append(("mk %d %d %d %s %d" % (cls, m, nn, data.hex() or "-", cplx),
                        {"op": "mk", "slot": s}))
        elif op == "unwrap-same":
            cand = [s for s in vals if md.slots[s]["kind"] == "wrapped"]
            if not cand:
                continue
            s = t.pick(cand, "slot")
            ty = md.slots[s]["type"]
            ops.append(("unwrap %s %d" % (ty, s), {"op": "unwrap", "type": ty, "slot": s, "expect": "value",
                                                   "value": md.slots[s]["value"]}))
        elif op == "unwrap-other":
            s = t.pick(vals, "slot")
            sl = md.slots[s]
            ty = t.pick(SCALARS + ["string"] + VECS, "type")
            if sl["kind"] == "wrapped":
                # shape/class of what wrap<T> made
                wt, v = sl["type"], sl["value"]
                if wt in SCALARS:
                    m, nn, cls = 1, 1, (6 if wt == "double" else 15)
                elif wt == "string":
                    m, nn, cls = (1 if len(v) else 0), len(v), 4
                elif wt == "Matrix":
                    m, nn, cls = v[0], v[1], 6
                else:
                    m, nn, cls = len(v), 1, 6
            else:
                m, nn, cls = sl["m"], sl["n"], sl["cls"]
            expect = "any"
            if ty in SCALARS and (m, nn) != (1, 1):
                expect = "error"
            elif ty in VECS and cls in NONNUMERIC:
                expect = "error"
            if sl["kind"] == "wrapped" and sl["type"] == ty:
                expect = "value"
            e = {"op": "unwrap", "type": ty, "slot": s, "expect": expect, "shape": (cls, m, nn)}
            if expect == "value":
                e["value"] = sl["value"]
            ops.append(("unwrap %s %d" % (ty, s), e))
        elif op == "free":
            s = t.pick(vals, "slot")
            del md.slots[s]
            ops.append(("free %d" % s, {"op": "free"}))
        elif op == "new":
            which = t.wpick([(0, 4), (1, 3), (2, 3)], "class")      # Obj, Derived (an Obj), Other (unrelated)
            h, ser = md.next_held, md.next_serial
            md.next_held += 1
            md.next_serial += 1
            md.held[h] = ser
            md.derived[ser] = which == 1
            md.other[ser] = which == 2
            md.created.add(ser)
            ops.append(("new %d" % which, {"op": "new", "hid": h, "serial": ser}))
        elif op == "wsp":
            h = t.pick(sorted(md.held), "hid")
            virt = 1 if t.bool(0.4, "virtual") else 0
            ser = md.held[h]
            e = {"op": "wsp", "serial": ser, "virt": virt, "derived": md.derived[ser]}
            if virt and not md.rtti:
                e["expect"] = "error"
            else:
                s = md.next_slot
                md.next_slot += 1
                cls = "Other" if md.other[ser] else ((DERIVED_MATLAB_NAME if md.derived[ser] else "Obj") if virt else "Obj")
                md.slots[s] = {"kind": "object", "serial": ser, "cls": cls}
                e.update(expect="object", slot=s, cls=cls)
            ops.append(("wsp %d %d" % (h, virt), e))
        elif op == "drop":
            h = t.pick(sorted(md.held), "hid")
            del md.held[h]
            ops.append(("drop %d" % h, {"op": "drop"}))
        elif op == "usp":
            s = t.pick(objs, "slot")
            keep = 1 if t.bool(0.4, "keep") else 0
            e = {"op": "usp", "serial": md.slots[s]["serial"], "keep": keep}
            if keep:
                e["hid"] = md.next_held
                md.held[md.next_held] = md.slots[s]["serial"]
                md.next_held += 1
            ops.append(("usp %d %d" % (s, keep), e))
        elif op == "uptr":
            s = t.pick(objs, "slot")
            ops.append(("uptr %d" % s, {"op": "uptr", "serial": md.slots[s]["serial"]}))
        elif op == "del":
            s = t.pick(objs, "slot")
            del md.slots[s]
            ops.append(("del %d" % s, {"op": "del"}))
        elif op == "rtti":
            md.rtti = not md.rtti
            ops.append(("rtti %d" % (1 if md.rtti else 0), {"op": "rtti"}))
        elif op == "unload":
            nobj = len(objs)
            for s in objs:
                del md.slots[s]
            md.rtti = False if False else md.rtti      # the registry is a MATLAB global: survives `clear mex`
            ops.append(("unload", {"op": "unload", "nobj": nobj}))
        else:
            raise AssertionError(op)
        if op in ("new", "wsp", "drop", "usp", "del", "unload", "uptr"):
            c = {k: v for k, v in md.counts().items() if v > 0}
            ops.append(("stat", {"op": "stat", "counts": c,
                                 "collector": sum(1 for v in md.slots.values() if v["kind"] == "object"),
                                 "destroyed": len([s for s in md.created if c.get(s, 0) == 0])}))
    return ops


# ---------------------------------------------------------------------------
def hash_line(ln):
    import zlib
    return zlib.crc32(ln.encode())


def run_driver(path, script, timeout=60):
    env = dict(os.environ)
    env["ASAN_OPTIONS"] = "detect_leaks=0:abort_on_error=0:exitcode=99"
    env["UBSAN_OPTIONS"] = "print_stacktrace=1:halt_on_error=1:exitcode=98"
    p = subprocess.run([path], input=script.encode(), capture_output=True, timeout=timeout, env=env)
    return p.returncode, p.stdout.decode("utf-8", "replace").splitlines(), p.stderr.decode("utf-8", "replace")


def parse_arr(line):
    # arr <slot> val <cls> <m> <n> <hex>
    f = line.split()
    return int(f[1]), int(f[3]), int(f[4]), int(f[5]), (bytes.fromhex(f[6]) if f[6] != "-" else b"")


def judge(ops, lines, probes):
    viol = []

    def add(inv, sig, detail):
        if len(viol) < 8:
            viol.append({"inv": inv, "sig": sig, "detail": detail})

    def pr(name):
        probes[name] = probes.get(name, 0) + 1

    if len(lines) != len(ops) + 1 or lines[-1] != "end":
        return None
    for k, ((cmd, e), line) in enumerate(zip(ops, lines)):
        f = line.split()
        head = f[0] if f else ""
        ctx = "op #%d `%s` -> `%s`" % (k, cmd[:120], line[:160])
        if head == "bad" or head == "exc":
            return None
        op = e["op"]
        if op == "wrap":
            if head != "arr":
                add("R1", "R1:%s:wrap-raised" % e["type"], "wrap of a supported value raised: " + ctx)
                continue
            slot, cls, m, n, data = parse_arr(line)
            ty, v = e["type"], e["value"]
            if ty == "string":
                pr("string_roundtrip")
            if ty in ("Vector", "Point2", "Point3"):
                want = b"".join(struct.pack("<Q", x) for x in v)
                if len(v) == 0:
                    pr("empty_vector")
                if (cls, m, n) != (6, len(v), 1) or data != want:
                    add("R1", "R1:%s:array-layout" % ty, "MATLAB array is not the %dx1 double column of the "
                        "vector: %s" % (len(v), ctx))
            elif ty == "Matrix":
                mm, nn, vals = v
                if mm == 0 or nn == 0:
                    pr("empty_matrix")
                want = b"".join(struct.pack("<Q", vals[i * nn + j]) for j in range(nn) for i in range(mm))
                if (cls, m, n) != (6, mm, nn) or data != want:
                    add("R1", "R1:Matrix:array-layout", "MATLAB array is not the %dx%d column-major image of "
                        "the matrix (element positions): %s" % (mm, nn, ctx))
            elif ty == "double":
                if (v >> 52) & 0x7ff == 0x7ff or v == 1 << 63:
                    pr("nan_or_inf_or_negzero")
                if (cls, m, n) != (6, 1, 1) or data != struct.pack("<Q", v):
                    add("R1", "R1:double:array-layout", "not a 1x1 double holding the value: " + ctx)
            else:
                if ty in ("int", "char") and isinstance(v, int) and v < 0:
                    pr("negative_int")
                if ty == "size_t" and v >= 1 << 63:
                    pr("size_t_above_2_63")
                if ty != "string" and (m, n) != (1, 1):
                    add("R1", "R1:%s:array-layout" % ty, "scalar not wrapped as 1x1: " + ctx)
        elif op == "unwrap":
            exp = e["expect"]
            if exp == "value":
                if head != "val":
                    add("R2", "R2:%s:roundtrip-raised" % e["type"],
                        "unwrap<%s> of what wrap<%s> produced raised: %s" % (e["type"], e["type"], ctx))
                elif " ".join(f[1:]) != enc_value(e["type"], e["value"]):
                    add("R1", "R1:%s:roundtrip" % e["type"],
                        "unwrap(wrap(v)) != v: sent %s; %s" % (enc_value(e["type"], e["value"])[:200], ctx))
            elif exp == "error":
                cls, m, n = e["shape"]
                if e["type"] in SCALARS:
                    pr("nonscalar_to_scalar")
                    what = "nonscalar"
                else:
                    pr("nonnumeric_to_vector_or_matrix")
                    what = "nonnumeric"
                if head != "err":
                    add("R2", "R2:%s:%s-accepted" % (e["type"], what),
                        "unwrap<%s> of a %dx%d array of class id %d yielded a value instead of an error: %s"
                        % (e["type"], m, n, cls, ctx))
        elif op == "new":
            if f[:1] != ["held"] or int(f[1]) != e["hid"] or int(f[2]) != e["serial"]:
                return None
        elif op == "wsp":
            if e["expect"] == "error":
                pr("virtual_path_rtti_cleared")
                if head != "err":
                    add("R4", "R4:wrap-virtual-without-registry", "expected the RTTI-registry error: " + ctx)
            else:
                if e["virt"]:
                    pr("virtual_path_with_rtti")
                if head != "obj":
                    add("R3", "R3:wrap_shared_ptr-raised", "wrap_shared_ptr failed: " + ctx)
                    return viol      # the model is out of step from here on
                if int(f[1]) != e["slot"]:
                    return None
                if f[2] != e["cls"]:
                    add("R3", "R3:proxy-class", "proxy object class %s, expected %s: %s" % (f[2], e["cls"], ctx))
                if e["derived"] and not e["virt"]:
                    pr("derived_wrapped_as_base")
        elif op == "usp":
            if head != "sp":
                add("R3", "R3:unwrap_shared_ptr-raised", ctx)
                return viol
            if int(f[1]) != e["serial"]:
                add("R3", "R3:unwrap_shared_ptr", "unwrap_shared_ptr designates object %s, wrapped object was %d: %s"
                    % (f[1], e["serial"], ctx))
            if e["keep"] and (f[2:3] != ["held"] or int(f[3]) != e["hid"]):
                return None
        elif op == "uptr":
            pr("unwrap_ptr_called")
            if head != "ptr":
                add("R3", "R3:unwrap_ptr-raised", ctx)
                return viol
            if int(f[1]) != e["serial"]:
                add("R3", "R3:unwrap_ptr", "unwrap_ptr returned %s, the wrapped object is #%d: %s" %
                    ("an address that is no live object" if f[1] == "-1" else "object #" + f[1], e["serial"], ctx))
        elif op == "unload":
            if e["nobj"]:
                pr("unload_with_live_handles")
        elif op == "stat":
            kv = dict(x.split("=", 1) for x in f[1:])
            live = {}
            if kv["live"] != "-":
                for item in kv["live"].split(","):
                    a, b = item.split(":")
                    live[int(a)] = int(b)
            if any(v >= 2 for v in e["counts"].values()):
                pr("same_object_two_handles")
            if live != e["counts"]:
                dead = sorted(set(e["counts"]) - set(live))
                leaked = sorted(set(live) - set(e["counts"]))
                cls = "destroyed-while-referenced" if dead else ("leaked" if leaked else "use-count")
                add("R4", "R4:%s" % cls, "live objects {serial: use_count} %s, model %s (after `%s`)" %
                    (live, e["counts"], ops[k - 1][0] if k else ""))
                return viol
            if int(kv["collector"]) != e["collector"]:
                add("R4", "R4:collector-size", "collector holds %s handles, model %d (after `%s`)" %
                    (kv["collector"], e["collector"], ops[k - 1][0]))
            if int(kv["doubledestroy"]) != 0:
                add("R4", "R4:double-destroy", ctx)
            if int(kv["destroyed"]) != e["destroyed"]:
                add("R4", "R4:destroyed-count", "destroyed %s, model %d" % (kv["destroyed"], e["destroyed"]))
            if e["destroyed"]:
                pr("delete_last_reference")
    return viol


def run_one(batch, tape, ctx):
    ops = gen_script(tape)
    script = "\n".join(cmd for cmd, _ in ops) + "\n"
    rc, lines, err = run_driver(ctx["drv"], script)
    probes = {}
    viol = []
    if rc != 0 and rc not in (98, 99):
        # the plain build died (segfault/abort): a memory-safety failure of the header under this history
        viol.append({"inv": "R5", "sig": "R5:driver-crashed", "detail": "driver exited %d after %d result lines; "
                     "last op: %s; stderr: %s" % (rc, len(lines), ops[min(len(lines), len(ops) - 1)][0], err[-300:])})
    else:
        v = judge(ops, lines, probes)
        if v is None:
            return {"harness": "protocol", "detail": "\n".join(lines[-5:]) + err[-500:]}
        viol += v
    rc2, lines2, err2 = run_driver(ctx["drv_asan"], script, timeout=120)
    if "ERROR: AddressSanitizer" in err2 or "runtime error:" in err2 or "LeakSanitizer" in err2 or rc2 in (98, 99):
        kind = "asan" if "AddressSanitizer" in err2 else ("leak" if "LeakSanitizer" in err2 else "ubsan")
        first = [ln for ln in err2.splitlines() if "ERROR" in ln or "runtime error" in ln][:1]
        viol.append({"inv": "R5", "sig": "R5:%s" % kind,
                     "detail": "sanitizer report after %d result lines (op `%s`): %s" %
                               (len(lines2), ops[min(len(lines2), len(ops) - 1)][0], (first or [err2[:300]])[0][:300])})
    elif rc2 == 0 and lines2 != lines and not viol:
        viol.append({"inv": "R5", "sig": "R5:build-dependent-result",
                     "detail": "the ASan build printed different results than the plain build (uninitialised data?)"})
    mrec = re.search(r"probe recycled=(\d+) recycled_other_class=(\d+)", err)
    if mrec:
        if int(mrec.group(1)):
            probes["handle_address_recycled"] = 1
        if int(mrec.group(2)):
            probes["handle_address_recycled_by_another_class"] = 1
    digest = hashlib.sha256((script + "\n".join(lines)).encode()).hexdigest()
    nh = sum(1 for c, e in ops if e["op"] in ("wsp", "usp", "uptr", "del", "drop", "unload"))
    ne = sum(1 for c, e in ops if e.get("expect") == "error")
    for c, e in ops:
        if e["op"] == "wsp" and e.get("virt") == 0 and e.get("expect") == "object":
            pass
    return {"violations": viol, "digest": digest, "nontrivial": nh >= 3 or ne >= 1,
            "stats": {"runs": 1, "ops": len(ops), "handle_ops": nh, "error_expectation_ops": ne},
            "faults": {"type-confused-array": ne,
                       "rtti-registry-cleared": sum(1 for c, e in ops if e["op"] == "wsp" and e.get("expect") == "error"),
                       "unload": sum(1 for c, e in ops if e["op"] == "unload")},
            "probes": probes, "steps": len(ops),
            "state_fps": sorted({hash_line(ln) for ln in lines if ln.startswith("stat ")})[:64],
            "interleaving": hashlib.sha256(" ".join(c.split()[0] for c, _ in ops).encode()).hexdigest()[:16],
            "sample": {"script": [c for c, _ in ops][:40], "results": lines[:40]},
            "trace": ["%s -> %s" % (c, ln) for (c, _), ln in zip(ops, lines)][-40:] if viol else None}
