// Mock MEX runtime (implementation of mexsim/include/mex.h).
//
// MATLAB rules implemented here, each with the construct of matlab.h / the generated
// gateway that needs it:
//  * mexErrMsgTxt / mexErrMsgIdAndTxt never return: they throw mexsim::MexError, which
//    is NOT derived from std::exception (the generated `catch(const std::exception&)`
//    must not swallow it); the driver catches it at the gateway boundary -- the
//    analogue of MATLAB unwinding out of the MEX function.
//  * numeric arrays are zero-initialised (wrap<int> etc. write only the low bytes).
//  * mxGetProperty returns a COPY of the property value (unwrap_shared_ptr reads the
//    handle from a copy); mexGetVariablePtr returns a read-only pointer, no copy;
//    mexGetVariable a copy; mexPutVariable stores a copy.
//  * mxGetScalar: first element converted to double; 0.0 for cell/struct/empty.
//  * mxArrayToString: NULL unless the array is char.
//  * arrays not destroyed by the callee are reclaimed by the driver after each call
//    (MATLAB's memory manager does the same), so mxArray leaks are not judged.
#include <mexsim.hpp>

#include <cstdarg>
#include <cstdio>
#include <cstdlib>
#include <cstring>
#include <set>

namespace mexsim {

CallHandler call_handler = nullptr;

static std::vector<mxArray *> g_all;          // allocation order
static std::set<mxArray *> g_live;
static std::map<std::string, mxArray *> g_globals;
static std::vector<void (*)(void)> g_atexit;
static std::string g_printed;

size_t elem_size(mxClassID c) {
  switch (c) {
    case mxDOUBLE_CLASS: case mxINT64_CLASS: case mxUINT64_CLASS: return 8;
    case mxSINGLE_CLASS: case mxINT32_CLASS: case mxUINT32_CLASS: return 4;
    case mxINT16_CLASS: case mxUINT16_CLASS: case mxCHAR_CLASS: return 2;
    case mxINT8_CLASS: case mxUINT8_CLASS: case mxLOGICAL_CLASS: return 1;
    default: return 0;
  }
}

static mxArray *track(mxArray *a) {
  g_all.push_back(a);
  g_live.insert(a);
  return a;
}

mxArray *new_array(mxClassID cls, size_t m, size_t n) {
  mxArray *a = new mxArray_tag();
  a->cls = cls;
  a->dims = {m, n};
  a->data.assign(elem_size(cls) * m * n, 0);
  if (cls == mxCELL_CLASS) a->cells.assign(m * n, nullptr);
  return track(a);
}

mxArray *new_object(const std::string &cls, uint64_t object_id) {
  mxArray *a = new mxArray_tag();
  a->cls = mxOBJECT_CLASS;
  a->dims = {1, 1};
  a->object_class = cls;
  a->object_id = object_id;
  return track(a);
}

void check_alive(const mxArray *a, const char *where) {
  if (a == nullptr) {
    std::fprintf(stderr, "MEXSIM-FATAL: null mxArray passed to %s\n", where);
    std::abort();
  }
  if (a->magic != 0x6d784172 || !g_live.count(const_cast<mxArray *>(a))) {
    std::fprintf(stderr, "MEXSIM-FATAL: use of a destroyed or foreign mxArray in %s\n", where);
    std::abort();
  }
}

static mxArray *deep_copy(const mxArray *in) {
  mxArray *a = new mxArray_tag();
  a->cls = in->cls;
  a->dims = in->dims;
  a->is_complex = in->is_complex;
  a->data = in->data;
  a->fieldnames = in->fieldnames;
  a->object_class = in->object_class;
  a->object_id = in->object_id;
  track(a);
  for (mxArray *f : in->fields) a->fields.push_back(f ? deep_copy(f) : nullptr);
  for (mxArray *c : in->cells) a->cells.push_back(c ? deep_copy(c) : nullptr);
  for (auto &kv : in->props) a->props[kv.first] = kv.second ? deep_copy(kv.second) : nullptr;
  return a;
}

static void destroy(mxArray *a) {
  if (!a) return;
  check_alive(a, "mxDestroyArray");
  for (mxArray *f : a->fields) destroy(f);
  for (mxArray *c : a->cells) destroy(c);
  for (auto &kv : a->props) destroy(kv.second);
  g_live.erase(a);
  a->magic = 0xdeadbeef;
  delete a;
}

void set_prop(mxArray *obj, const std::string &name, mxArray *value) {
  check_alive(obj, "set_prop");
  auto it = obj->props.find(name);
  if (it != obj->props.end() && it->second) destroy(it->second);
  obj->props[name] = value;
}

mxArray *prop_ref(const mxArray *obj, const std::string &name) {
  check_alive(obj, "prop_ref");
  auto it = obj->props.find(name);
  return it == obj->props.end() ? nullptr : it->second;
}

int run_at_exit() {
  std::vector<void (*)(void)> fns;
  fns.swap(g_atexit);
  // MATLAB runs the (single) registered exit function; registering the same function
  // repeatedly keeps one registration.
  std::set<void (*)(void)> seen;
  int n = 0;
  for (auto f : fns)
    if (seen.insert(f).second) {
      f();
      ++n;
    }
  return n;
}

void clear_globals() {
  for (auto &kv : g_globals) destroy(kv.second);
  g_globals.clear();
}

bool has_global(const std::string &name) { return g_globals.count(name) != 0; }

void remove_global(const std::string &name) {
  auto it = g_globals.find(name);
  if (it != g_globals.end()) {
    destroy(it->second);
    g_globals.erase(it);
  }
}

size_t live_arrays() { return g_live.size(); }
size_t mark() { return g_all.size(); }

static void collect_reachable(mxArray *a, std::set<mxArray *> &out) {
  if (!a || !out.insert(a).second) return;
  for (mxArray *f : a->fields) collect_reachable(f, out);
  for (mxArray *c : a->cells) collect_reachable(c, out);
  for (auto &kv : a->props) collect_reachable(kv.second, out);
}

void free_since(size_t mk, const std::vector<mxArray *> &keep) {
  std::set<mxArray *> keepset;
  for (mxArray *k : keep) collect_reachable(k, keepset);
  for (auto &kv : g_globals) collect_reachable(kv.second, keepset);
  // children are destroyed with their parents: only destroy roots (arrays that are not
  // a child of another array allocated since the mark)
  std::set<mxArray *> children;
  for (size_t i = mk; i < g_all.size(); ++i) {
    mxArray *a = g_all[i];
    if (!g_live.count(a)) continue;
    for (mxArray *f : a->fields) if (f) children.insert(f);
    for (mxArray *c : a->cells) if (c) children.insert(c);
    for (auto &kv : a->props) if (kv.second) children.insert(kv.second);
  }
  std::vector<mxArray *> roots;
  for (size_t i = mk; i < g_all.size(); ++i) {
    mxArray *a = g_all[i];
    if (g_live.count(a) && !keepset.count(a) && !children.count(a)) roots.push_back(a);
  }
  for (mxArray *r : roots)
    if (g_live.count(r)) destroy(r);
  // compact the allocation log
  std::vector<mxArray *> still;
  for (mxArray *a : g_all)
    if (g_live.count(a)) still.push_back(a);
  g_all.swap(still);
}

std::string describe(const mxArray *a) {
  check_alive(a, "describe");
  char buf[128];
  if (a->cls == mxOBJECT_CLASS) {
    std::snprintf(buf, sizeof buf, "obj %s %llu", a->object_class.c_str(), (unsigned long long)a->object_id);
    return buf;
  }
  std::snprintf(buf, sizeof buf, "val %d %zu %zu ", (int)a->cls, a->dims[0], a->dims[1]);
  std::string s = buf;
  static const char *hex = "0123456789abcdef";
  for (unsigned char c : a->data) {
    s.push_back(hex[c >> 4]);
    s.push_back(hex[c & 15]);
  }
  if (a->data.empty()) s += "-";
  return s;
}

std::string printed() {
  std::string s;
  s.swap(g_printed);
  return s;
}

}  // namespace mexsim

using namespace mexsim;

extern "C" {

void mexErrMsgTxt(const char *msg) { throw MexError{"", msg ? msg : ""}; }

void mexErrMsgIdAndTxt(const char *id, const char *fmt, ...) {
  char buf[2048];
  va_list ap;
  va_start(ap, fmt);
  std::vsnprintf(buf, sizeof buf, fmt ? fmt : "", ap);
  va_end(ap);
  throw MexError{id ? id : "", buf};
}

int mexPrintf(const char *fmt, ...) {
  char buf[4096];
  va_list ap;
  va_start(ap, fmt);
  int n = std::vsnprintf(buf, sizeof buf, fmt, ap);
  va_end(ap);
  g_printed += buf;
  if (g_printed.size() > (1u << 16)) g_printed.erase(0, g_printed.size() - (1u << 16));
  return n;
}

mxArray *mxCreateNumericArray(mwSize ndim, const mwSize *dims, mxClassID classid, mxComplexity flag) {
  size_t m = ndim >= 1 ? dims[0] : 1, n = 1;
  for (mwSize i = 1; i < ndim; ++i) n *= dims[i];
  mxArray *a = new_array(classid, m, n);
  a->is_complex = flag == mxCOMPLEX;
  return a;
}

mxArray *mxCreateNumericMatrix(mwSize m, mwSize n, mxClassID classid, mxComplexity flag) {
  mxArray *a = new_array(classid, m, n);
  a->is_complex = flag == mxCOMPLEX;
  return a;
}

mxArray *mxCreateDoubleMatrix(mwSize m, mwSize n, mxComplexity flag) {
  return mxCreateNumericMatrix(m, n, mxDOUBLE_CLASS, flag);
}

mxArray *mxCreateDoubleScalar(double value) {
  mxArray *a = new_array(mxDOUBLE_CLASS, 1, 1);
  std::memcpy(a->data.data(), &value, 8);
  return a;
}

mxArray *mxCreateLogicalScalar(int value) {
  mxArray *a = new_array(mxLOGICAL_CLASS, 1, 1);
  a->data[0] = value ? 1 : 0;
  return a;
}

mxArray *mxCreateString(const char *str) {
  size_t n = str ? std::strlen(str) : 0;
  mxArray *a = new_array(mxCHAR_CLASS, n ? 1 : 0, n);
  for (size_t i = 0; i < n; ++i) {
    mxChar c = (unsigned char)str[i];
    std::memcpy(a->data.data() + 2 * i, &c, 2);
  }
  return a;
}

mxArray *mxCreateStructMatrix(mwSize m, mwSize n, int nfields, const char **fieldnames) {
  mxArray *a = new_array(mxSTRUCT_CLASS, m, n);
  for (int i = 0; i < nfields; ++i) {
    a->fieldnames.push_back(fieldnames[i]);
    a->fields.push_back(nullptr);
  }
  return a;
}

mxArray *mxDuplicateArray(const mxArray *in) {
  check_alive(in, "mxDuplicateArray");
  return deep_copy(in);
}

void mxDestroyArray(mxArray *a) {
  if (a) destroy(a);
}

void mxFree(void *p) { std::free(p); }

void *mxGetData(const mxArray *a) {
  check_alive(a, "mxGetData");
  return a->data.empty() ? nullptr : const_cast<unsigned char *>(a->data.data());
}

double *mxGetPr(const mxArray *a) {
  check_alive(a, "mxGetPr");
  if (a->cls != mxDOUBLE_CLASS) return nullptr;
  return a->data.empty() ? nullptr : reinterpret_cast<double *>(const_cast<unsigned char *>(a->data.data()));
}

size_t mxGetM(const mxArray *a) {
  check_alive(a, "mxGetM");
  return a->dims[0];
}

size_t mxGetN(const mxArray *a) {
  check_alive(a, "mxGetN");
  size_t n = 1;
  for (size_t i = 1; i < a->dims.size(); ++i) n *= a->dims[i];
  return n;
}

mxClassID mxGetClassID(const mxArray *a) {
  check_alive(a, "mxGetClassID");
  return a->cls;
}

double mxGetScalar(const mxArray *a) {
  check_alive(a, "mxGetScalar");
  if (a->data.empty()) return 0.0;
  const unsigned char *p = a->data.data();
  switch (a->cls) {
    case mxDOUBLE_CLASS: { double v; std::memcpy(&v, p, 8); return v; }
    case mxSINGLE_CLASS: { float v; std::memcpy(&v, p, 4); return v; }
    case mxINT8_CLASS: return (double)*(const int8_t *)p;
    case mxUINT8_CLASS: case mxLOGICAL_CLASS: return (double)*(const uint8_t *)p;
    case mxINT16_CLASS: { int16_t v; std::memcpy(&v, p, 2); return v; }
    case mxUINT16_CLASS: case mxCHAR_CLASS: { uint16_t v; std::memcpy(&v, p, 2); return v; }
    case mxINT32_CLASS: { int32_t v; std::memcpy(&v, p, 4); return v; }
    case mxUINT32_CLASS: { uint32_t v; std::memcpy(&v, p, 4); return v; }
    case mxINT64_CLASS: { int64_t v; std::memcpy(&v, p, 8); return (double)v; }
    case mxUINT64_CLASS: { uint64_t v; std::memcpy(&v, p, 8); return (double)v; }
    default: return 0.0;
  }
}

int mxIsDouble(const mxArray *a) {
  check_alive(a, "mxIsDouble");
  return a->cls == mxDOUBLE_CLASS;
}

int mxIsComplex(const mxArray *a) {
  check_alive(a, "mxIsComplex");
  return a->is_complex;
}

int mxIsChar(const mxArray *a) {
  check_alive(a, "mxIsChar");
  return a->cls == mxCHAR_CLASS;
}

char *mxArrayToString(const mxArray *a) {
  check_alive(a, "mxArrayToString");
  if (a->cls != mxCHAR_CLASS) return nullptr;
  size_t n = a->numel();
  char *s = (char *)std::malloc(n + 1);
  for (size_t i = 0; i < n; ++i) {
    mxChar c;
    std::memcpy(&c, a->data.data() + 2 * i, 2);
    s[i] = (char)c;
  }
  s[n] = 0;
  return s;
}

int mxGetString(const mxArray *a, char *buf, mwSize buflen) {
  check_alive(a, "mxGetString");
  if (a->cls != mxCHAR_CLASS || buflen == 0) return 1;
  size_t n = a->numel();
  size_t k = n < buflen - 1 ? n : buflen - 1;
  for (size_t i = 0; i < k; ++i) {
    mxChar c;
    std::memcpy(&c, a->data.data() + 2 * i, 2);
    buf[i] = (char)c;
  }
  buf[k] = 0;
  return n > buflen - 1 ? 1 : 0;
}

mxArray *mxGetField(const mxArray *a, mwIndex index, const char *fieldname) {
  check_alive(a, "mxGetField");
  if (a->cls != mxSTRUCT_CLASS || index != 0) return nullptr;
  for (size_t i = 0; i < a->fieldnames.size(); ++i)
    if (a->fieldnames[i] == fieldname) return a->fields[i];
  return nullptr;
}

int mxAddField(mxArray *a, const char *fieldname) {
  check_alive(a, "mxAddField");
  if (a->cls != mxSTRUCT_CLASS) return -1;
  for (size_t i = 0; i < a->fieldnames.size(); ++i)
    if (a->fieldnames[i] == fieldname) return (int)i;
  a->fieldnames.push_back(fieldname);
  a->fields.push_back(nullptr);
  return (int)a->fieldnames.size() - 1;
}

void mxSetFieldByNumber(mxArray *a, mwIndex index, int fieldnumber, mxArray *value) {
  check_alive(a, "mxSetFieldByNumber");
  if (a->cls != mxSTRUCT_CLASS || index != 0 || fieldnumber < 0 || (size_t)fieldnumber >= a->fields.size())
    return;
  if (a->fields[fieldnumber]) destroy(a->fields[fieldnumber]);
  a->fields[fieldnumber] = value;   // ownership moves into the struct
}

mxArray *mxGetProperty(const mxArray *a, mwIndex index, const char *propname) {
  check_alive(a, "mxGetProperty");
  if (a->cls != mxOBJECT_CLASS || index != 0) return nullptr;
  auto it = a->props.find(propname);
  if (it == a->props.end() || !it->second) return nullptr;
  return deep_copy(it->second);     // MATLAB returns a copy
}

int mexCallMATLAB(int nlhs, mxArray *plhs[], int nrhs, mxArray *prhs[], const char *name) {
  if (!call_handler) throw MexError{"mexsim:nohandler", std::string("mexCallMATLAB(") + name + ") with no handler"};
  return call_handler(nlhs, plhs, nrhs, prhs, name);
}

const mxArray *mexGetVariablePtr(const char *workspace, const char *name) {
  (void)workspace;
  auto it = g_globals.find(name);
  return it == g_globals.end() ? nullptr : it->second;
}

mxArray *mexGetVariable(const char *workspace, const char *name) {
  (void)workspace;
  auto it = g_globals.find(name);
  return it == g_globals.end() ? nullptr : deep_copy(it->second);
}

int mexPutVariable(const char *workspace, const char *name, const mxArray *value) {
  (void)workspace;
  check_alive(value, "mexPutVariable");
  mxArray *copy = deep_copy(value);
  auto it = g_globals.find(name);
  if (it != g_globals.end()) destroy(it->second);
  g_globals[name] = copy;
  return 0;
}

int mexAtExit(void (*fn)(void)) {
  for (auto f : g_atexit)
    if (f == fn) return 0;      // one registration per exit function
  g_atexit.push_back(fn);
  return 0;
}

}  // extern "C"
