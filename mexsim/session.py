"""Simulated MATLAB session for C11.

Executes the statement trees of the generated .m files (mexsim/mfile.py) with MATLAB
semantics and talks to the compiled gateway driver over a lock-step line protocol.

MATLAB rules implemented (and the generated construct that needs each):
  * nargin / varargin / varargout, `varargin{:}` expansion              every generated function
  * isa(x,'double'|'numeric'|'float'|'integer'|'char'|'logical'|'uint64'|'<class>')
    - double arrays are 'double','float','numeric'; intN 'numeric','integer'; logical and char
      are NOT numeric; objects match their class and every superclass; enumeration members
      match their enumeration class                                     overload guards
  * size(x,d), length(x), strcmp(a,b), x == uint64(k)                   guards
  * handle-class construction: properties get their defaults, the constructor body runs,
    `obj = obj@Parent(args)` runs the superclass constructor on the same object
  * delete(obj): the most-derived class's delete method first, then each superclass's
  * error('...') raises; an error inside a constructor discards the object
  * method lookup along the inheritance chain; static methods and package functions by name
  * property access runs get.NAME / set.NAME when the class defines them
Everything else MATLAB can do is out of scope: the session issues only what the generated
.m files allow.
"""
import struct
import subprocess

from . import mfile

KEY = 5139824614673773682


class MatlabError(Exception):
    """error(...) raised on the MATLAB side, or a MEX error returned by the gateway"""

    def __init__(self, msg, from_mex=False):
        Exception.__init__(self, msg)
        self.msg, self.from_mex = msg, from_mex


class ProtocolFailure(Exception):
    pass


class DriverDied(Exception):
    def __init__(self, stderr, rc):
        Exception.__init__(self, "driver died (rc=%s)" % rc)
        self.stderr, self.rc = stderr, rc


# ---------------------------------------------------------------------------
# values
# ---------------------------------------------------------------------------
class MVal:
    kind = "?"

    def dims(self):
        return (1, 1)


class MDouble(MVal):
    kind = "double"

    def __init__(self, m, n, data):
        self.m, self.n, self.data = m, n, list(data)     # column-major floats

    @staticmethod
    def scalar(x):
        return MDouble(1, 1, [float(x)])

    def dims(self):
        return (self.m, self.n)

    def token(self):
        if (self.m, self.n) == (1, 1):
            return "d:" + struct.pack("<d", self.data[0]).hex()
        return "D:%d:%d:%s" % (self.m, self.n, b"".join(struct.pack("<d", x) for x in self.data).hex() or "-")

    def __repr__(self):
        return "double%dx%d%s" % (self.m, self.n, self.data[:6])


class MChar(MVal):
    kind = "char"

    def __init__(self, s):
        self.s = s

    def dims(self):
        return (1 if self.s else 0, len(self.s))

    def token(self):
        return "c:" + (self.s.encode("latin-1").hex() or "-")

    def __repr__(self):
        return "char(%r)" % self.s


class MLogical(MVal):
    kind = "logical"

    def __init__(self, v):
        self.v = bool(v)

    def token(self):
        return "l:%d" % self.v

    def __repr__(self):
        return "logical(%d)" % self.v


class MInt(MVal):
    def __init__(self, kind, v):
        self.kind, self.v = kind, int(v)

    def token(self):
        fmt = {"uint64": "u64:%d", "int32": "i32:%d"}.get(self.kind)
        if fmt is None:
            raise InterpreterLimit("no gateway token for a %s value" % self.kind)
        return fmt % self.v

    def __repr__(self):
        return "%s(%d)" % (self.kind, self.v)


class MCell(MVal):
    kind = "cell"

    def token(self):
        return "cell:1"


class MEnum(MVal):
    kind = "enum"

    def __init__(self, cls, v):
        self.cls, self.v = cls, int(v)

    def token(self):
        return "e:%s:%d" % (self.cls, self.v)

    def __repr__(self):
        return "%s(%d)" % (self.cls, self.v)


class MArrayRef(MVal):
    """an array that lives in a driver slot (e.g. a handle returned by the gateway)"""
    kind = "uint64"

    def __init__(self, slot, desc):
        self.slot, self.desc = slot, desc

    def token(self):
        return "a:%d" % self.slot

    def __repr__(self):
        return "slot%d" % self.slot

    _INT = {3: "<B", 8: "<b", 9: "<B", 10: "<h", 11: "<H", 12: "<i", 13: "<I", 14: "<q", 15: "<Q"}

    def scalar(self):
        """the integer held by a 1x1 integer/logical array (whatever its class), else None"""
        f = self.desc.split()
        try:
            cls, m, n = int(f[1]), int(f[2]), int(f[3])
            raw = bytes.fromhex(f[4]) if f[4] != "-" else b""
        except (ValueError, IndexError):
            return None
        fmt = self._INT.get(cls)
        if fmt is None or (m, n) != (1, 1) or len(raw) < struct.calcsize(fmt):
            return None
        return struct.unpack(fmt, raw[:struct.calcsize(fmt)])[0]


class MObject(MVal):
    kind = "object"

    def __init__(self, cls, oid, slot):
        self.cls, self.oid, self.slot = cls, oid, slot
        self.ptrs = {}          # ptr_<X> property -> True once assigned
        self.alive = True

    def token(self):
        return "o:%d" % self.slot

    def __repr__(self):
        return "<%s #%d>" % (self.cls, self.oid)


class _Return(Exception):
    pass


# ---------------------------------------------------------------------------
class Session:
    def __init__(self, driver_path, toolbox_files, wrapper_name, env=None):
        self.classes, self.functions = mfile.load_toolbox(toolbox_files)
        self.wrapper = wrapper_name
        self.proc = subprocess.Popen([driver_path], stdin=subprocess.PIPE, stdout=subprocess.PIPE,
                                     stderr=subprocess.PIPE, env=env, bufsize=0)
        self.objects = {}           # oid -> MObject
        self.next_oid = 1
        self.log = []               # protocol transcript (for replay files)
        self.gateway_calls = []     # (id, nargs) per top-level or nested call, in order
        self.last_trace = []
        self.trace_acc = []         # library events of all gateway calls since the check last consumed them
        self.last_state = {}
        self.depth = 0

    # -- driver IO ---------------------------------------------------------
    def send(self, line):
        self.log.append("> " + line)
        try:
            self.proc.stdin.write((line + "\n").encode())
            self.proc.stdin.flush()
        except (BrokenPipeError, OSError):
            self.died()

    def recv(self):
        line = self.proc.stdout.readline()
        if not line:
            self.died()
        line = line.decode("utf-8", "replace").rstrip("\n")
        self.log.append("< " + line[:300])
        if line.startswith("protocol-error"):
            raise ProtocolFailure(line)
        return line

    def died(self):
        try:
            self.proc.stdin.close()
        except OSError:
            pass
        err = self.proc.stderr.read().decode("utf-8", "replace")
        rc = self.proc.wait()
        raise DriverDied(err, rc)

    def close(self):
        if self.proc.poll() is None:
            try:
                self.send("quit")
                self.proc.stdin.close()
            except Exception:
                pass
            try:
                self.proc.wait(timeout=20)
            except subprocess.TimeoutExpired:
                self.proc.kill()
        err = b""
        try:
            err = self.proc.stderr.read()
        except Exception:
            pass
        return self.proc.returncode, err.decode("utf-8", "replace")

    def simple(self, line, expect):
        self.send(line)
        r = self.recv()
        if not r.startswith(expect):
            raise ProtocolFailure("%s -> %s" % (line, r))
        return r

    # -- values from the driver -----------------------------------------------
    def from_desc(self, slot, desc):
        """desc: 'val <cls> <m> <n> <hex>' or 'obj <class> <id>'"""
        f = desc.split()
        if f[0] == "obj":
            oid = int(f[2])
            if oid in self.objects:
                if slot != self.objects[oid].slot:
                    self.simple("free %d" % slot, "ok")        # a duplicate of a handle we already track
                return self.objects[oid]
            if f[1] in self.classes and self.classes[f[1]].enum_members:
                self.send("getprop %d __enum_value" % slot)
                r = self.recv().split()
                v = struct.unpack("<d", bytes.fromhex(r[5]))[0] if len(r) >= 6 and r[1] == "val" else 0
                self.simple("free %d" % slot, "ok")
                return MEnum(f[1], int(v))
            raise ProtocolFailure("unknown object in result: " + desc)
        cls, m, n = int(f[1]), int(f[2]), int(f[3])
        data = bytes.fromhex(f[4]) if f[4] != "-" else b""
        if cls == 6:
            vals = [struct.unpack("<d", data[i:i + 8])[0] for i in range(0, len(data), 8)]
            v = MDouble(m, n, vals)
        elif cls == 4:
            v = MChar("".join(chr(struct.unpack("<H", data[i:i + 2])[0]) for i in range(0, len(data), 2)))
        elif cls == 3:
            v = MLogical(data[:1] == b"\x01")
        elif cls == 15 and (m, n) == (1, 1):
            return MArrayRef(slot, desc)                # keep the slot: it may be a handle
        elif cls == 12 and (m, n) == (1, 1):
            v = MInt("int32", struct.unpack("<i", data[:4])[0])
        else:
            return MArrayRef(slot, desc)
        v.raw = (cls, m, n, data)
        if slot:
            self.simple("free %d" % slot, "ok")
        return v

    # -- gateway calls ------------------------------------------------------------
    def gateway(self, nlhs, args):
        """args[0] is the numeric id.  Returns list of output values."""
        self.gateway_calls.append((args[0].data[0] if isinstance(args[0], MDouble) else None, len(args) - 1))
        self.send("call %d %d %s" % (nlhs, len(args), " ".join(a.token() for a in args)))
        self.depth += 1
        try:
            while True:
                line = self.recv()
                if line.startswith("callback "):
                    self.serve_callback(line)
                    continue
                if line.startswith("result "):
                    break
                raise ProtocolFailure("unexpected line " + line)
        finally:
            self.depth -= 1
        if self.depth == 0:
            self.read_trace_state()
        f = line.split(" ", 3)
        if f[1] == "err":
            raise MatlabError(bytes.fromhex(f[2]).decode("utf-8", "replace") if f[2] != "-" else "", from_mex=True)
        n = int(f[2])
        outs = []
        if n:
            for item in self._split_outs(f[3], n):
                slot, desc = item.split(";", 1)
                outs.append(None if desc == "null" else self.from_desc(int(slot), desc))
        return outs

    @staticmethod
    def _split_outs(s, n):
        # items are "<slot>;val c m n hex" or "<slot>;obj cls id" separated by single spaces; split on " <digits>;"
        import re
        parts = re.split(r" (?=\d+;)", s)
        return parts

    def read_trace_state(self):
        line = self.recv()
        if not line.startswith("trace "):
            raise ProtocolFailure("expected trace, got " + line)
        evs = []
        for _ in range(int(line.split()[1])):
            ev = self.recv()
            ent, ovl, selfs, ret, args = ev[3:].split("|", 4)
            evs.append({"entity": ent, "overload": int(ovl), "self": int(selfs), "ret": ret,
                        "args": args.split(",") if args else []})
        st = self.recv()
        if not st.startswith("state "):
            raise ProtocolFailure("expected state, got " + st)
        kv = dict(x.split("=", 1) for x in st.split()[1:])
        coll = {}
        if kv["coll"] != "-":
            for item in kv["coll"].split(","):
                a, b = item.rsplit(":", 1)
                coll[a] = int(b)
        live = {}
        if kv["live"] != "-":
            for item in kv["live"].split(","):
                a, b = item.split(":", 1)
                live[int(a)] = b
        self.last_trace = evs
        self.trace_acc.extend(evs)
        self.last_state = {"coll": coll, "live": live, "destroyed": int(kv["destroyed"]), "dd": int(kv["dd"]),
                           "calls": int(kv["calls"]), "coutdangling": int(kv.get("coutdangling", 0))}

    def serve_callback(self, line):
        f = line.split(" ", 4)
        name, nlhs, nrhs = f[1], int(f[2]), int(f[3])
        args = []
        if nrhs:
            for item in self._split_outs(f[4], nrhs):
                slot, desc = item.split(";", 1)
                args.append(self.from_desc_keep(int(slot), desc))
        try:
            if name in self.classes and not self.classes[name].enum_members:
                obj = self.construct(name, args)
                self.send("return " + obj.token())
            elif name in self.classes:
                v = args[0].data[0] if isinstance(args[0], MDouble) else 0
                self.send("return e:%s:%d" % (name, int(v)))
            elif name == "int32":
                a = args[0]
                v = a.v if isinstance(a, (MEnum, MInt)) else (a.data[0] if isinstance(a, MDouble) else 0)
                self.send("return i32:%d" % int(v))
            else:
                self.send("raise")
        except MatlabError:
            self.send("raise")

    def from_desc_keep(self, slot, desc):
        """callback arguments live in temporary driver slots owned by the driver: never free them here"""
        f = desc.split()
        if f[0] == "obj":
            oid = int(f[2])
            if oid in self.objects:
                return self.objects[oid]
            if f[1] in self.classes and self.classes[f[1]].enum_members:
                self.send("getprop %d __enum_value" % slot)
                r = self.recv().split()
                v = struct.unpack("<d", bytes.fromhex(r[5]))[0] if len(r) >= 6 and r[1] == "val" else 0
                return MEnum(f[1], int(v))
            return MArrayRef(slot, desc)        # an object of a class MATLAB does not know: opaque
        cls, m, n = int(f[1]), int(f[2]), int(f[3])
        data = bytes.fromhex(f[4]) if f[4] != "-" else b""
        if cls == 6:
            return MDouble(m, n, [struct.unpack("<d", data[i:i + 8])[0] for i in range(0, len(data), 8)])
        if cls == 4:
            return MChar("".join(chr(struct.unpack("<H", data[i:i + 2])[0]) for i in range(0, len(data), 2)))
        if cls == 15 and len(data) == 8 and struct.unpack("<Q", data)[0] == KEY:
            return MInt("uint64", KEY)
        return MArrayRef(slot, desc)

    # -- MATLAB semantics ----------------------------------------------------------
    def ancestors(self, cname):
        out = []
        seen = set()
        while cname in self.classes and cname not in seen:
            seen.add(cname)
            out.append(cname)
            cname = self.classes[cname].parent
        return out

    def isa(self, v, tname):
        if isinstance(v, MDouble):
            return tname in ("double", "float", "numeric")
        if isinstance(v, MInt):
            return tname in (v.kind, "numeric", "integer")
        if isinstance(v, MArrayRef):
            return tname in ("uint64", "numeric", "integer")
        if isinstance(v, MChar):
            return tname == "char"
        if isinstance(v, MLogical):
            return tname == "logical"
        if isinstance(v, MCell):
            return tname == "cell"
        if isinstance(v, MEnum):
            return tname == v.cls or tname in ("uint32", "numeric", "integer")
        if isinstance(v, MObject):
            return tname in self.ancestors(v.cls) or tname == "handle"
        return False

    def evaluate(self, e, env):
        k = e[0]
        if k == "num":
            return MDouble.scalar(float(e[1])) if "." in e[1] else ("int-literal", int(e[1]))
        if k == "str":
            return MChar(e[1])
        if k == "and":
            return self.truth(self.evaluate(e[1], env)) and self.truth(self.evaluate(e[2], env))
        if k == "or":
            return self.truth(self.evaluate(e[1], env)) or self.truth(self.evaluate(e[2], env))
        if k == "not":
            return not self.truth(self.evaluate(e[1], env))
        if k == "eq":
            a, b = self.evaluate(e[1], env), self.evaluate(e[2], env)
            return self.num(a) == self.num(b)
        if k == "rel":
            a, b = self.num(self.evaluate(e[2], env)), self.num(self.evaluate(e[3], env))
            if a is None or b is None:
                raise MatlabError("relational operator on a non-numeric value")
            return {"<": a < b, ">": a > b, "<=": a <= b, ">=": a >= b}[e[1]]
        if k == "arith":
            a, b = self.num(self.evaluate(e[2], env)), self.num(self.evaluate(e[3], env))
            if a is None or b is None:
                raise MatlabError("arithmetic on a non-numeric value")
            r = {"+": a + b, "-": a - b, "*": a * b}[e[1]]
            return ("int-literal", r) if isinstance(r, int) else MDouble.scalar(r)
        if k == "name":
            name = e[1]
            if name in env:
                return env[name]
            if name in ("true", "false"):
                return name == "true"
            if name in self.file_locals(env) or name in ("nargin", "nargout"):
                return self.call_builtin(name, [], env)
            if "." in name:
                head, _, prop = name.partition(".")
                if head in env and isinstance(env[head], MObject):
                    return self.get_prop_raw(env[head], prop)
            raise MatlabError("Undefined function or variable '%s'" % name)
        if k == "brace":
            base = self.evaluate(e[1], env)
            idx = e[2][0]
            if idx[0] == "colon":
                return ("expand", list(base))
            i = self.num(self.evaluate(idx, env))
            if not isinstance(base, list) or i < 1 or i > len(base):
                raise MatlabError("Index exceeds the number of array elements")
            return base[int(i) - 1]
        if k == "call":
            fn = e[1][1] if e[1][0] == "name" else None
            args = []
            for a in e[2]:
                v = self.evaluate(a, env)
                if isinstance(v, tuple) and v and v[0] == "expand":
                    args.extend(v[1])
                else:
                    args.append(v)
            return self.call_builtin(fn, args, env)
        raise InterpreterLimit("cannot evaluate %r" % (e,))

    @staticmethod
    def truth(v):
        if isinstance(v, bool):
            return v
        if isinstance(v, MLogical):
            return v.v
        if isinstance(v, MDouble):
            return bool(v.data) and all(x != 0 for x in v.data)
        if isinstance(v, tuple) and v[0] == "int-literal":
            return v[1] != 0
        return bool(v)

    @staticmethod
    def num(v):
        if isinstance(v, tuple) and v[0] == "int-literal":
            return v[1]
        if isinstance(v, MDouble):
            return v.data[0] if v.data else None
        if isinstance(v, (MInt, MEnum)):
            return v.v
        if isinstance(v, MLogical):
            return int(v.v)
        if isinstance(v, bool):
            return int(v)
        if isinstance(v, (int, float)):
            return v
        return None

    @staticmethod
    def file_locals(env):
        return env.get("__locals") or {}

    def call_builtin(self, fn, args, env):
        if fn in self.file_locals(env):
            g = self.file_locals(env)[fn]
            outs = self.call_function(g, args, env.get("__nlhs", 1), locals_=self.file_locals(env))
            nl = env.get("__nlhs", 1)
            if nl <= 1:
                return outs[0] if outs else None
            return ("outs", outs)
        if fn == "isa":
            return self.isa(args[0], args[1].s)
        if fn in ("numel",):
            if isinstance(args[0], list):
                return ("int-literal", len(args[0]))
            m, n = args[0].dims()
            return ("int-literal", m * n)
        if fn == "isempty":
            if isinstance(args[0], list):
                return len(args[0]) == 0
            m, n = args[0].dims()
            return m * n == 0
        if fn == "isnumeric":
            return self.isa(args[0], "numeric")
        if fn == "isfloat":
            return isinstance(args[0], MDouble)
        if fn == "ischar":
            return isinstance(args[0], MChar)
        if fn == "islogical":
            return isinstance(args[0], MLogical)
        if fn == "iscell":
            return isinstance(args[0], (MCell, list))
        if fn == "isobject":
            return isinstance(args[0], MObject)
        if fn == "isscalar":
            if isinstance(args[0], list):
                return len(args[0]) == 1
            return args[0].dims() == (1, 1)
        if fn == "not":
            return not self.truth(args[0])
        if fn in ("and", "or"):
            a, b = self.truth(args[0]), self.truth(args[1])
            return (a and b) if fn == "and" else (a or b)
        if fn == "class":
            v = args[0]
            if isinstance(v, MObject):
                return MChar(v.cls)
            if isinstance(v, MEnum):
                return MChar(v.cls)
            for cls, name in ((MDouble, "double"), (MChar, "char"), (MLogical, "logical"), (MCell, "cell")):
                if isinstance(v, cls):
                    return MChar(name)
            return MChar(getattr(v, "kind", "uint64"))
        if fn == "isequal":
            a, b = args[0], args[1]
            if isinstance(a, MChar) or isinstance(b, MChar):
                return isinstance(a, MChar) and isinstance(b, MChar) and a.s == b.s
            return self.num(a) is not None and self.num(a) == self.num(b)
        if fn == "nargin" and "nargin" in env:
            return env["nargin"]
        if fn == "nargout":
            return ("int-literal", env.get("__nargout", 1))
        if fn == "double":
            v = self.num(args[0])
            if v is None:
                raise MatlabError("double() of a non-numeric value")
            return MDouble.scalar(float(v))
        if fn == "strcmp":
            return isinstance(args[0], MChar) and isinstance(args[1], MChar) and args[0].s == args[1].s
        if fn == "length":
            if isinstance(args[0], list):
                return ("int-literal", len(args[0]))
            m, n = args[0].dims()
            return ("int-literal", 0 if 0 in (m, n) else max(m, n))
        if fn == "size":
            d = int(self.num(args[1]))
            dims = args[0].dims() if isinstance(args[0], MVal) else (1, len(args[0]))
            return ("int-literal", dims[d - 1] if d <= 2 else 1)
        if fn == "uint64":
            return MInt("uint64", self.num(args[0]))
        if fn == self.wrapper:
            conv = [MDouble.scalar(a[1]) if isinstance(a, tuple) and a[0] == "int-literal" else a for a in args]
            return ("outs", self.gateway(env.get("__nlhs", 1), conv))
        if fn in KNOWN_MATLAB:
            raise InterpreterLimit("MATLAB function %s is not implemented by the simulated session" % fn)
        raise MatlabError("Undefined function '%s'" % fn)

    # -- executing function bodies ------------------------------------------------------
    def run_body(self, stmts, env):
        for st in stmts:
            k = st[0]
            if k == "if":
                done = False
                for cond, body in st[1]:
                    if self.truth(self.evaluate(cond, env)):
                        self.run_body(body, env)
                        done = True
                        break
                if not done and st[2] is not None:
                    self.run_body(st[2], env)
            elif k == "switch":
                subj = self.evaluate(st[1], env)
                done = False
                for labels, body in st[2]:
                    for lab in labels:
                        lv = self.evaluate(lab, env)
                        if isinstance(subj, MChar) or isinstance(lv, MChar):
                            hit = isinstance(subj, MChar) and isinstance(lv, MChar) and subj.s == lv.s
                        else:
                            hit = self.num(subj) is not None and self.num(subj) == self.num(lv)
                        if hit:
                            break
                    else:
                        continue
                    self.run_body(body, env)
                    done = True
                    break
                if not done and st[3] is not None:
                    self.run_body(st[3], env)
            elif k == "return":
                raise _Return()
            elif k == "error":
                eargs = st[1][2]
                strs = [a[1] for a in eargs if a[0] == "str"]
                # error(msg) / error(id, fmt, ...): report the last literal (the message or its format)
                raise MatlabError(strs[-1] if strs else "error")
            elif k == "expr":
                e = st[1]
                if e[0] == "supercall":
                    self.supercall(e, env)
                else:
                    env["__nlhs"] = 0
                    self.evaluate(e, env)
            elif k == "assign":
                lhs, rhs = st[1], st[2]
                if rhs[0] == "supercall":
                    self.supercall(rhs, env)
                    continue
                env["__nlhs"] = len(lhs)
                v = self.evaluate(rhs, env)
                if isinstance(v, tuple) and v and v[0] == "outs":
                    outs = v[1]
                    if len(outs) < len(lhs):
                        raise MatlabError("One or more output arguments not assigned during call to \"%s\"." %
                                          self.wrapper, from_mex=True)
                    for target, val in zip(lhs, outs):
                        self.assign(target, val, env)
                else:
                    if isinstance(v, tuple) and v and v[0] == "int-literal":
                        v = MDouble.scalar(v[1])
                    self.assign(lhs[0], v, env)
            else:
                raise InterpreterLimit("unsupported statement %r" % (st,))

    def assign(self, target, val, env):
        if target[0] == "name":
            name = target[1]
            if "." in name:
                head, _, prop = name.partition(".")
                obj = env.get(head)
                if isinstance(obj, MObject):
                    if prop.startswith("ptr_"):
                        self.simple("setprop %d %s %s" % (obj.slot, prop, val.token()), "ok")
                        obj.ptrs[prop] = True
                    return          # plain properties are cached values only (this.x = varargout{1})
                if head == "obj" and "this" in env:
                    return          # the generated setter writes to an undefined `obj`: creates a struct, harmless
                return
            env[name] = val
            return
        if target[0] == "brace" and target[1] == ("name", "varargout"):
            i = int(self.num(self.evaluate(target[2][0], env)))
            out = env.setdefault("varargout", [])
            while len(out) < i:
                out.append(None)
            out[i - 1] = val
            return
        raise InterpreterLimit("unsupported assignment target %r" % (target,))

    def supercall(self, e, env):
        obj = env[e[1]]
        args = []
        for a in e[3]:
            v = self.evaluate(a, env)
            args.append(v)
        parent = e[2]
        if parent not in self.classes:
            raise MatlabError("superclass %s is not defined in the toolbox" % parent)
        self.run_ctor(parent, obj, args)

    def bind(self, fn, vals, locals_=None):
        """MATLAB argument binding: named parameters positionally, `varargin` takes the rest"""
        env = {"nargin": ("int-literal", len(vals)), "__locals": locals_ or {}}
        params = list(fn.params)
        for i, p in enumerate(params):
            if p == "varargin":
                env["varargin"] = list(vals[i:])
                break
            if i < len(vals):
                env[p] = vals[i]
        else:
            if len(vals) > len(params):
                raise MatlabError("Too many input arguments.")
        return env

    def run_ctor(self, cname, obj, args):
        cd = self.classes[cname]
        fn = cd.methods.get(cd.name)
        if fn is None:
            return
        env = self.bind(fn, list(args), cd.local_functions)
        env[fn.outs[0] if fn.outs else "obj"] = obj      # the object under construction is the output variable
        try:
            self.run_body(fn.body, env)
        except _Return:
            pass

    # -- public operations ------------------------------------------------------------------
    def construct(self, cname, args):
        if cname not in self.classes:
            raise MatlabError("Undefined class " + cname)
        oid = self.next_oid
        self.next_oid += 1
        r = self.simple("newobj %s %d" % (cname, oid), "slot ")
        obj = MObject(cname, oid, int(r.split()[1]))
        self.objects[oid] = obj
        try:
            self.run_ctor(cname, obj, args)
        except MatlabError:
            obj.alive = False
            del self.objects[oid]
            self.simple("delobj %d" % obj.slot, "ok")
            raise
        return obj

    def delete(self, obj):
        """MATLAB's handle destruction: delete methods from the most-derived class upwards"""
        for cname in self.ancestors(obj.cls):
            fn = self.classes[cname].methods.get("delete")
            if fn is not None:
                env = self.bind(fn, [obj], self.classes[cname].local_functions)
                try:
                    self.run_body(fn.body, env)
                except _Return:
                    pass
        obj.alive = False
        self.objects.pop(obj.oid, None)
        self.simple("delobj %d" % obj.slot, "ok")

    def get_prop_raw(self, obj, prop):
        """obj.ptr_X inside generated code: the stored handle value (a copy of the driver-side property)"""
        return MPropRef(obj, prop)

    def find_method(self, obj, name):
        for cname in self.ancestors(obj.cls):
            fn = self.classes[cname].methods.get(name)
            if fn is not None and name != self.classes[cname].name:
                return cname, fn
        return None, None

    def call_function(self, fn, args, nargout, this=None, locals_=None):
        if locals_ is None:
            locals_ = getattr(fn, "local_functions", None) or {}
        env = self.bind(fn, ([this] if this is not None else []) + list(args), locals_)
        env["__nargout"] = nargout
        try:
            self.run_body(fn.body, env)
        except _Return:
            pass
        if "varargout" in fn.outs:
            named = [env[o] for o in fn.outs if o != "varargout" and o in env]
            return named + list(env.get("varargout", []))
        return [env[o] for o in fn.outs if o in env]

    def call_method(self, obj, name, args):
        cname, fn = self.find_method(obj, name)
        if fn is None:
            raise MatlabError("No method '%s' for class %s" % (name, obj.cls))
        return self.call_function(fn, args, 1, this=obj, locals_=self.classes[cname].local_functions)

    def call_static(self, cname, name, args):
        fn = self.classes[cname].statics.get(name)
        if fn is None:
            raise MatlabError("No static method %s.%s" % (cname, name))
        return self.call_function(fn, args, 1, locals_=self.classes[cname].local_functions)

    def call_free(self, fname, args):
        fn = self.functions.get(fname)
        if fn is None:
            raise MatlabError("Undefined function " + fname)
        return self.call_function(fn, args, 1)

    def get_property(self, obj, prop):
        for cname in self.ancestors(obj.cls):
            fn = self.classes[cname].getters.get(prop)
            if fn is not None:
                outs = self.call_function(fn, [], 1, this=obj, locals_=self.classes[cname].local_functions)
                return outs[0] if outs else None
        raise MatlabError("No property " + prop)

    def set_property(self, obj, prop, value):
        for cname in self.ancestors(obj.cls):
            fn = self.classes[cname].setters.get(prop)
            if fn is not None:
                env = self.bind(fn, [obj, value], self.classes[cname].local_functions)
                try:
                    self.run_body(fn.body, env)
                except _Return:
                    pass
                return
        raise MatlabError("No property " + prop)

    def whois(self, obj, prop):
        self.send("whois %d %s" % (obj.slot, prop))
        r = self.recv().split()
        if r[1] == "none":
            return None
        return int(r[1]), int(r[2])

    def unload(self):
        self.send("atexit")
        r = self.recv()
        if not r.startswith("atexit"):
            raise ProtocolFailure(r)
        self.read_trace_state()
        return int(r.split()[1])


class InterpreterLimit(Exception):
    """the generated .m code uses MATLAB this subset interpreter does not implement: a harness limitation,
    never a verdict about the code under test"""


# names MATLAB itself defines: a call to one of these that reaches the end of call_builtin is a limit of this
# interpreter; a call to any other undefined name is what MATLAB would report, too
KNOWN_MATLAB = set("""
validateattributes narginchk nargoutchk inputname cellfun arrayfun any all ismember strcmpi strncmp strncmpi sprintf
fprintf disp display warning assert exist isfield struct cell zeros ones ndims columns rows isvector ismatrix isreal
isinteger int8 int16 int32 int64 uint8 uint16 uint32 single logical char num2str mat2str func2str str2func feval builtin
subsref subsasgn isprop ismethod metaclass properties methods fieldnames horzcat vertcat cat repmat reshape floor ceil
round mod rem abs min max sum find strrep regexp regexprep strsplit strjoin upper lower strtrim isspace iskeyword
isvarname tic toc clock now datestr rethrow MException inputParser isstring string strlength contains startsWith
endsWith numArgumentsFromSubscript end deal isrow iscolumn isnan isinf ishandle isvalid getfield setfield cast typecast
bitand bitor bitshift idivide error lasterr evalin eval assignin mfilename which func handle
""".split())


class MPropRef(MVal):
    """`obj.ptr_X` used as a gateway argument: the driver reads the property of the object's slot"""
    kind = "uint64"

    def __init__(self, obj, prop):
        self.obj, self.prop = obj, prop

    def token(self):
        return "p:%d:%s" % (self.obj.slot, self.prop)
