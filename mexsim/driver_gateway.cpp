// C11 driver: one translation unit = the REAL generated <module>_wrapper.cpp (which pulls in the
// real matlab.h and the instrumented library) + this lock-step protocol server.  The simulated
// MATLAB session (Python, mexsim/session.py) is the peer: it interprets the generated .m files
// and issues `call` commands; mexCallMATLAB issued by the gateway is forwarded to the session as
// a `callback` and served re-entrantly (the session may issue nested `call`s before `return`).
//
// Build: g++ ... -DWRAPPER_FILE="\"<path>/prog_wrapper.cpp\"" -DCOLLECTORS_FILE="\"<path>/collectors.inc\""
#include <cstdio>
#include <cstdlib>
#include <cstring>
#include <iostream>
#include <map>
#include <sstream>
#include <string>
#include <vector>

#include <mexsim.hpp>

namespace gtsam { long standin_size_mismatches = 0; }

#include WRAPPER_FILE

struct CollectorEntry { const char *name; size_t (*size)(); };
static CollectorEntry g_collectors[] = {
#include COLLECTORS_FILE
    {nullptr, nullptr}};

// ---------------------------------------------------------------------------------------
static std::streambuf *g_cout_buf = nullptr;
static long g_cout_left_redirected = 0;
static std::map<int, mxArray *> slots;
static int next_slot = 1;
static int put(mxArray *a) { slots[next_slot] = a; return next_slot++; }

static std::string hexs(const void *p, size_t n) {
  static const char *h = "0123456789abcdef";
  std::string s;
  const unsigned char *b = (const unsigned char *)p;
  for (size_t i = 0; i < n; ++i) { s.push_back(h[b[i] >> 4]); s.push_back(h[b[i] & 15]); }
  return n ? s : "-";
}
static std::vector<unsigned char> unhex(const std::string &s) {
  std::vector<unsigned char> out;
  if (s == "-") return out;
  for (size_t i = 0; i + 1 < s.size(); i += 2) out.push_back((unsigned char)std::stoi(s.substr(i, 2), nullptr, 16));
  return out;
}
static std::vector<std::string> split(const std::string &s, char c) {
  std::vector<std::string> out;
  std::string cur;
  for (char ch : s) { if (ch == c) { out.push_back(cur); cur.clear(); } else cur.push_back(ch); }
  out.push_back(cur);
  return out;
}

// C stdio on purpose: the generated mexFunction redirects std::cout to the MATLAB console buffer
static void say(const std::string &s) { std::fputs(s.c_str(), stdout); std::fputc('\n', stdout); std::fflush(stdout); }

struct ProtocolError { std::string msg; };

// decode an argument token into an mxArray (owned by the caller unless it is a slot reference)
static mxArray *decode(const std::string &tok, bool &is_ref) {
  is_ref = false;
  auto f = split(tok, ':');
  const std::string &k = f[0];
  if (k == "d") { double d = 0; auto b = unhex(f[1]); std::memcpy(&d, b.data(), 8); return mxCreateDoubleScalar(d); }
  if (k == "D") {
    size_t m = std::stoul(f[1]), n = std::stoul(f[2]);
    mxArray *a = mxCreateDoubleMatrix(m, n, mxREAL);
    auto b = unhex(f[3]);
    if (!b.empty()) std::memcpy(a->data.data(), b.data(), std::min(b.size(), a->data.size()));
    return a;
  }
  if (k == "c") { auto b = unhex(f[1]); std::string s(b.begin(), b.end()); return mxCreateString(s.c_str()); }
  if (k == "l") { return mxCreateLogicalScalar(f[1] == "1"); }
  if (k == "u64") { mxArray *a = mxCreateNumericMatrix(1, 1, mxUINT64_CLASS, mxREAL);
    uint64_t v = std::stoull(f[1]); std::memcpy(a->data.data(), &v, 8); return a; }
  if (k == "i32") { mxArray *a = mxCreateNumericMatrix(1, 1, mxINT32_CLASS, mxREAL);
    int32_t v = (int32_t)std::stol(f[1]); std::memcpy(a->data.data(), &v, 4); return a; }
  if (k == "cell") { return mexsim::new_array(mxCELL_CLASS, 1, 1); }
  if (k == "e") {   // enumeration member: object of the enum class carrying its numeric value
    mxArray *a = mexsim::new_object(f[1], 0);
    mxArray *v = mxCreateDoubleScalar((double)std::stol(f[2]));
    mexsim::set_prop(a, "__enum_value", v);
    return a;
  }
  if (k == "p") {   // obj.<prop> passed by value; an unset ptr_ property has its default 0
    int s = std::stoi(f[1]);
    if (!slots.count(s)) throw ProtocolError{"no such slot " + tok};
    mxArray *p = mexsim::prop_ref(slots[s], f[2]);
    return p ? mxDuplicateArray(p) : mxCreateDoubleScalar(0.0);
  }
  if (k == "o" || k == "a") {
    int s = std::stoi(f[1]);
    if (!slots.count(s)) throw ProtocolError{"no such slot " + tok};
    is_ref = true;
    return slots[s];
  }
  throw ProtocolError{"bad arg token " + tok};
}

static std::string describe_slot(int s) { return std::to_string(s) + ";" + mexsim::describe(slots[s]); }

static void print_trace_and_state() {
  auto &tr = lib::S().trace;
  say("trace " + std::to_string(tr.size()));
  for (auto &e : tr) {
    std::string line = "ev " + e.entity + "|" + std::to_string(e.overload) + "|" + std::to_string(e.self) + "|" + e.ret + "|";
    for (size_t i = 0; i < e.args.size(); ++i) line += (i ? "," : "") + e.args[i];
    say(line);
  }
  tr.clear();
  std::string st = "state coll=";
  bool first = true;
  for (CollectorEntry *c = g_collectors; c->name; ++c) { st += (first ? "" : ",") + std::string(c->name) + ":" + std::to_string(c->size()); first = false; }
  if (first) st += "-";
  st += " live=";
  first = true;
  // sorted by serial for determinism
  std::map<long, std::string> bys;
  for (auto &kv : lib::S().live) bys[kv.second.first] = kv.second.second;
  for (auto &kv : bys) { st += (first ? "" : ",") + std::to_string(kv.first) + ":" + kv.second; first = false; }
  if (first) st += "-";
  st += " destroyed=" + std::to_string(lib::S().destroyed.size()) + " dd=" + std::to_string(lib::S().double_destroy) +
        " calls=" + std::to_string(lib::S().calls) + " arrays=" + std::to_string(mexsim::live_arrays()) +
        " coutdangling=" + std::to_string(g_cout_left_redirected);
  say(st);
}

static bool serve(int depth, std::vector<mxArray *> *ret_out, int ret_n);

static int g_depth = 0;

// the MATLAB side of mexCallMATLAB: forwarded to the session
static int matlab_side(int nlhs, mxArray *plhs[], int nrhs, mxArray *prhs[], const char *name) {
  std::string line = "callback " + std::string(name) + " " + std::to_string(nlhs) + " " + std::to_string(nrhs);
  std::vector<int> tmp;
  for (int i = 0; i < nrhs; ++i) {
    int s = put(mxDuplicateArray(prhs[i]));      // MATLAB receives copies of the inputs
    tmp.push_back(s);
    line += " " + describe_slot(s);
  }
  say(line);
  std::vector<mxArray *> outs;
  bool ok = serve(g_depth + 1, &outs, nlhs);
  for (int s : tmp) if (slots.count(s)) { mxDestroyArray(slots[s]); slots.erase(s); }
  if (!ok) mexErrMsgTxt("error raised on the MATLAB side of mexCallMATLAB");
  for (int i = 0; i < nlhs && i < (int)outs.size(); ++i) plhs[i] = outs[i];
  return 0;
}

static void do_call(std::istringstream &in) {
  int nlhs, nrhs;
  in >> nlhs >> nrhs;
  std::vector<mxArray *> args;
  std::vector<mxArray *> owned;
  for (int i = 0; i < nrhs; ++i) {
    std::string tok;
    in >> tok;
    bool ref;
    mxArray *a = decode(tok, ref);
    args.push_back(a);
    if (!ref) owned.push_back(a);
  }
  const int NOUT = 8;
  mxArray *out[NOUT];
  for (int i = 0; i < NOUT; ++i) out[i] = nullptr;
  std::string res;
  size_t mk = mexsim::mark();
  (void)mk;
  try {
    std::vector<const mxArray *> cargs(args.begin(), args.end());
    ++g_depth;
    mexFunction(nlhs, out, nrhs, cargs.data());
    --g_depth;
    int nout = 0;
    for (int i = 0; i < NOUT; ++i) if (out[i]) nout = i + 1;
    res = "result ok " + std::to_string(nout);
    for (int i = 0; i < nout; ++i) {
      if (out[i]) res += " " + describe_slot(put(out[i]));
      else res += " 0;null";
    }
  } catch (const mexsim::MexError &e) {
    --g_depth;
    res = "result err " + hexs(e.msg.data(), e.msg.size());
    for (int i = 0; i < NOUT; ++i) if (out[i]) mxDestroyArray(out[i]);
  }
  for (mxArray *a : owned) mxDestroyArray(a);
  if (g_depth == 0 && std::cout.rdbuf() != g_cout_buf) {
    // an error unwound past the generated `std::cout.rdbuf(outbuf)`: std::cout still points at the
    // destroyed stack-allocated mstream.  Not part of C11's statement; counted as a side observation
    // and repaired here so that later output cannot crash the driver.
    ++g_cout_left_redirected;
    std::cout.rdbuf(g_cout_buf);
  }
  say(res);
}

// returns false if the session answered a callback with `raise`
static bool serve(int depth, std::vector<mxArray *> *ret_out, int ret_n) {
  std::string line;
  while (std::getline(std::cin, line)) {
    if (line.empty()) continue;
    std::istringstream in(line);
    std::string cmd;
    in >> cmd;
    try {
      if (cmd == "call") {
        do_call(in);
        if (depth == 0) {
          print_trace_and_state();
          std::vector<mxArray *> keep;
          for (auto &kv : slots) keep.push_back(kv.second);
          mexsim::free_since(0, keep);
        }
      } else if (cmd == "return") {
        if (depth == 0) throw ProtocolError{"return outside a callback"};
        std::string tok;
        while (in >> tok) {
          bool ref;
          mxArray *a = decode(tok, ref);
          ret_out->push_back(ref ? mxDuplicateArray(a) : a);
        }
        (void)ret_n;
        return true;
      } else if (cmd == "raise") {
        if (depth == 0) throw ProtocolError{"raise outside a callback"};
        return false;
      } else if (cmd == "newobj") {
        std::string cls; unsigned long long id;
        in >> cls >> id;
        say("slot " + std::to_string(put(mexsim::new_object(cls, id))));
      } else if (cmd == "setprop") {
        int s; std::string name, tok;
        in >> s >> name >> tok;
        bool ref;
        mxArray *a = decode(tok, ref);
        mexsim::set_prop(slots.at(s), name, ref ? mxDuplicateArray(a) : a);
        say("ok");
      } else if (cmd == "getprop") {
        int s; std::string name;
        in >> s >> name;
        mxArray *p = mexsim::prop_ref(slots.at(s), name);
        say(p ? "prop " + mexsim::describe(p) : "prop none");
      } else if (cmd == "whois") {
        // which library object does the handle stored in <slot>.<prop> (or in array <slot>) designate?
        int s; std::string name;
        in >> s >> name;
        mxArray *p = name == "-" ? slots.at(s) : mexsim::prop_ref(slots.at(s), name);
        if (!p || p->data.size() != 8) { say("who none"); }
        else {
          void *raw;
          std::memcpy(&raw, p->data.data(), 8);
          std::shared_ptr<void> *h = reinterpret_cast<std::shared_ptr<void> *>(raw);
          auto it = lib::S().live.find(h->get());
          say("who " + std::to_string(it == lib::S().live.end() ? -1 : it->second.first) + " " +
              std::to_string(h->use_count()));
        }
      } else if (cmd == "delobj" || cmd == "free") {
        int s;
        in >> s;
        if (slots.count(s)) { mxDestroyArray(slots[s]); slots.erase(s); }
        say("ok");
      } else if (cmd == "atexit") {
        int n = mexsim::run_at_exit();
        say("atexit " + std::to_string(n));
        print_trace_and_state();
      } else if (cmd == "clearglobals") {
        mexsim::clear_globals();
        say("ok");
      } else if (cmd == "throw_at") {
        long n; in >> n;
        lib::S().throw_at = n > 0 ? lib::S().calls + n : -1;
        say("ok");
      } else if (cmd == "retained") {
        int v; in >> v;
        lib::S().return_retained = v != 0;
        say("ok");
      } else if (cmd == "state") {
        print_trace_and_state();
      } else if (cmd == "quit") {
        return true;
      } else {
        throw ProtocolError{"unknown command " + cmd};
      }
    } catch (const ProtocolError &e) {
      say("protocol-error " + e.msg);
    } catch (const std::out_of_range &) {
      say("protocol-error bad slot");
    }
  }
  return true;
}

int main() {
  mexsim::call_handler = &matlab_side;
  g_cout_buf = std::cout.rdbuf();
  std::vector<mxArray *> none;
  serve(0, &none, 0);
  say("bye");
  return 0;
}
