"""Reader for the MATLAB subset the generator emits (classdef / function / enumeration files).

The simulated session does not know wrap's id map: ids, guards and statement order come
from the generated .m files, parsed here into small statement trees that session.py
executes with MATLAB semantics.

MATLAB constructs implemented (each because a generated construct needs it):
  classdef NAME < PARENT ... end           class files (PARENT 'handle' or a dotted class name)
  properties ... end                        `ptr_X = 0` and plain property names
  methods / methods(Static = true)          instance / static method blocks
  enumeration ... end                       `Name(value)` members of enum classdefs
  function [outs] = name(params) ... end    incl. get.NAME / set.NAME accessors
  if / elseif / else / end, return, error('...')
  assignments  x = e;  [a, b] = e;  [ a b ] = e;  obj.p = e;  varargout{1} = e;
  expressions  && || == numbers 'strings' f(args) v{k} v{:} a.b.c obj@Parent(args)
One-line `function display(obj), obj.print(''); end` definitions are skipped (console only).
"""
import re


class MParseError(Exception):
    pass


TOKEN = re.compile(r"""
    (?P<ws>\s+)
  | (?P<num>\d+(?:\.\d+)?(?:[eE][+-]?\d+)?)
  | (?P<str>'(?:[^']|'')*')
  | (?P<op>&&|\|\||==|~=|<=|>=|[()\[\]{},;=@:.<>~+\-*&|])
  | (?P<id>[A-Za-z_][A-Za-z_0-9]*)
""", re.X)


def tokenize(s):
    out = []
    i = 0
    while i < len(s):
        m = TOKEN.match(s, i)
        if not m:
            raise MParseError("cannot tokenize %r at %d" % (s, i))
        i = m.end()
        if m.lastgroup == "ws":
            continue
        out.append((m.lastgroup, m.group(m.lastgroup)))
    return out


# ---------------------------------------------------------------------------
# expressions -> tuples
# ---------------------------------------------------------------------------
class ExprParser:
    def __init__(self, toks):
        self.t, self.i = toks, 0

    def peek(self, k=0):
        return self.t[self.i + k] if self.i + k < len(self.t) else (None, None)

    def eat(self, val=None):
        tok = self.peek()
        if tok[0] is None or (val is not None and tok[1] != val):
            raise MParseError("expected %r, found %r" % (val, tok))
        self.i += 1
        return tok

    def expr(self):
        left = self.and_()
        while self.peek()[1] in ("||", "|"):
            self.eat()
            left = ("or", left, self.and_())
        return left

    def and_(self):
        left = self.cmp()
        while self.peek()[1] in ("&&", "&"):
            self.eat()
            left = ("and", left, self.cmp())
        return left

    def cmp(self):
        left = self.additive()
        while self.peek()[1] in ("==", "~=", "<", ">", "<=", ">="):
            op = self.eat()[1]
            right = self.additive()
            if op == "==":
                left = ("eq", left, right)
            elif op == "~=":
                left = ("not", ("eq", left, right))
            else:
                left = ("rel", op, left, right)
        return left

    def additive(self):
        left = self.term()
        while self.peek()[1] in ("+", "-"):
            op = self.eat()[1]
            left = ("arith", op, left, self.term())
        return left

    def term(self):
        left = self.unary()
        while self.peek()[1] == "*":
            self.eat()
            left = ("arith", "*", left, self.unary())
        return left

    def unary(self):
        if self.peek()[1] == "-":
            self.eat()
            return ("arith", "-", ("num", "0"), self.unary())
        if self.peek()[1] == "+":
            self.eat()
            return self.unary()
        return self.primary()

    def primary(self):
        kind, val = self.peek()
        if kind == "num":
            self.eat()
            return ("num", val)
        if kind == "str":
            self.eat()
            return ("str", val[1:-1].replace("''", "'"))
        if val == "(":
            self.eat()
            e = self.expr()
            self.eat(")")
            return e
        if val == "~":
            self.eat()
            return ("not", self.unary())
        if val == ":":
            self.eat()
            return ("colon",)
        if kind == "id":
            return self.ref()
        raise MParseError("unexpected token %r" % (self.peek(),))

    def ref(self):
        name = self.eat()[1]
        while self.peek()[1] == "." and self.peek(1)[0] == "id":
            self.eat()
            name += "." + self.eat()[1]
        node = ("name", name)
        if self.peek()[1] == "@":          # obj@pkg.Parent(args): superclass constructor call
            self.eat()
            sup = self.eat()[1]
            while self.peek()[1] == "." and self.peek(1)[0] == "id":
                self.eat()
                sup += "." + self.eat()[1]
            # generic class names such as Base<T> appear verbatim in generated files
            if self.peek()[1] == "<":
                depth = 0
                while True:
                    k, v = self.eat()
                    sup += v
                    if v == "<":
                        depth += 1
                    elif v == ">":
                        depth -= 1
                        if depth == 0:
                            break
            self.eat("(")
            return ("supercall", name, sup, self.args(")"))
        while self.peek()[1] in ("(", "{"):
            if self.peek()[1] == "(":
                self.eat()
                node = ("call", node, self.args(")"))
            else:
                self.eat()
                node = ("brace", node, self.args("}"))
        return node

    def args(self, closer):
        out = []
        if self.peek()[1] == closer:
            self.eat()
            return out
        while True:
            out.append(self.expr())
            if self.peek()[1] == ",":
                self.eat()
                continue
            self.eat(closer)
            return out


def parse_expr(s):
    p = ExprParser(tokenize(s))
    e = p.expr()
    if p.i != len(p.t):
        raise MParseError("trailing tokens in expression %r" % s)
    return e


# ---------------------------------------------------------------------------
# statements
# ---------------------------------------------------------------------------
def _strip_comment(line):
    # a '%' outside a string starts a comment
    out = []
    in_s = False
    for ch in line:
        if ch == "'":
            in_s = not in_s
        if ch == "%" and not in_s:
            break
        out.append(ch)
    return "".join(out).rstrip()


def _split_assignment(stmt):
    """-> (lhs_text or None, rhs_text) splitting on the first top-level '=' that is not '=='"""
    depth = 0
    in_s = False
    i = 0
    while i < len(stmt):
        ch = stmt[i]
        if ch == "'":
            in_s = not in_s
        elif not in_s:
            if ch in "([{":
                depth += 1
            elif ch in ")]}":
                depth -= 1
            elif ch == "=" and depth == 0:
                if stmt[i + 1:i + 2] == "=" or stmt[i - 1:i] in ("=", "~", "<", ">"):
                    i += 2
                    continue
                return stmt[:i].strip(), stmt[i + 1:].strip()
        i += 1
    return None, stmt.strip()


def _split_top(text, sep):
    """split at top-level occurrences of sep (outside brackets and strings)"""
    out, depth, in_s, cur = [], 0, False, []
    for ch in text:
        if ch == "'":
            in_s = not in_s
        if not in_s:
            if ch in "([{":
                depth += 1
            elif ch in ")]}":
                depth -= 1
            elif ch == sep and depth == 0:
                out.append("".join(cur).strip())
                cur = []
                continue
        cur.append(ch)
    if "".join(cur).strip():
        out.append("".join(cur).strip())
    return out


def _parse_lhs(lhs):
    lhs = lhs.strip()
    if lhs.startswith("["):
        inner = lhs[1:-1].replace(",", " ")
        return [parse_expr(x) for x in inner.split()]
    return [parse_expr(lhs)]


def parse_statement(text):
    text = text.strip().rstrip(";").strip()
    if text == "return":
        return ("return",)
    lhs, rhs = _split_assignment(text)
    if lhs is None:
        return ("expr", parse_expr(rhs))
    return ("assign", _parse_lhs(lhs), parse_expr(rhs))


class Function:
    def __init__(self, name, outs, params):
        self.name, self.outs, self.params = name, outs, params
        self.body = []

    def __repr__(self):
        return "Function(%s)" % self.name


FUNC_RE = re.compile(r"^function\s+(?:(\[[^\]]*\]|[A-Za-z_]\w*)\s*=\s*)?([A-Za-z_][\w.]*)\s*(?:\(([^)]*)\))?\s*$")


def parse_block(lines, i, terminators):
    """parse statements until a line whose first word is in terminators; -> (stmts, index, terminator line)"""
    out = []
    while i < len(lines):
        ln = lines[i]
        word = re.match(r"[A-Za-z_]+", ln)
        w = word.group(0) if word else ""
        if w in terminators:
            return out, i, ln
        if w == "if":
            branches = []
            cond = parse_expr(ln[2:].strip())
            body, i, term = parse_block(lines, i + 1, ("elseif", "else", "end"))
            branches.append((cond, body))
            else_body = None
            while True:
                tw = re.match(r"[A-Za-z_]+", term).group(0)
                if tw == "elseif":
                    cond = parse_expr(term[6:].strip())
                    body, i, term = parse_block(lines, i + 1, ("elseif", "else", "end"))
                    branches.append((cond, body))
                elif tw == "else":
                    else_body, i, term = parse_block(lines, i + 1, ("end",))
                else:
                    break
            out.append(("if", branches, else_body))
            i += 1
            continue
        if w == "switch":
            subject = parse_expr(ln[6:].strip())
            cases, default = [], None
            body, i, term = parse_block(lines, i + 1, ("case", "otherwise", "end"))
            while True:
                tw = re.match(r"[A-Za-z_]+", term).group(0)
                if tw == "case":
                    label = term[4:].strip()
                    if label.startswith("{") and label.endswith("}"):
                        labels = [parse_expr(x) for x in _split_top(label[1:-1], ",")]
                    else:
                        labels = [parse_expr(label)]
                    body, i, term = parse_block(lines, i + 1, ("case", "otherwise", "end"))
                    cases.append((labels, body))
                elif tw == "otherwise":
                    default, i, term = parse_block(lines, i + 1, ("end",))
                else:
                    break
            out.append(("switch", subject, cases, default))
            i += 1
            continue
        if w == "error" and ln.startswith("error("):
            out.append(("error", parse_expr(ln.rstrip(";"))))
            i += 1
            continue
        out.append(parse_statement(ln))
        i += 1
    raise MParseError("block not terminated")


class ClassDef:
    def __init__(self, name, parent):
        self.name, self.parent = name, parent
        self.props = []
        self.methods = {}       # name -> Function (incl. constructor under the bare class name, delete)
        self.statics = {}
        self.getters, self.setters = {}, {}
        self.local_functions = {}   # file-local helper functions defined after the classdef block
        self.enum_members = []  # [(name, value)] for enumeration classdefs
        self.package = ""       # dotted package path, set by load_toolbox

    @property
    def full(self):
        return (self.package + "." if self.package else "") + self.name


_BLOCK_WORDS = re.compile(r"(function|classdef|if|elseif|else|switch|case|otherwise|for|while|methods|properties|"
                          r"enumeration|events|end)\b")


def _logical_lines(text):
    """comment-free, non-empty statements: `...` continuations joined, `a = 1; b = 2;` split"""
    lines, pending = [], ""
    for raw in text.splitlines():
        ln = _strip_comment(raw).rstrip()
        k = ln.find("...")
        if k >= 0 and ln.count("'", 0, k) % 2 == 0:
            pending += ln[:k] + " "
            continue
        ln = (pending + ln).strip()
        pending = ""
        if not ln:
            continue
        if _BLOCK_WORDS.match(ln):
            lines.append(ln)
        else:
            lines.extend(x for x in _split_top(ln, ";") if x)
    return lines


def _parse_function_at(lines, i):
    fl = lines[i]
    m2 = FUNC_RE.match(fl)
    if not m2:
        raise MParseError("bad function line %r" % fl)
    outs = m2.group(1) or ""
    fn = Function(m2.group(2), outs.strip("[] ").replace(",", " ").split(),
                  [p.strip() for p in (m2.group(3) or "").split(",") if p.strip()])
    fn.body, i, _ = parse_block(lines, i + 1, ("end",))
    return fn, i + 1


def parse_file(text):
    """-> ('class', ClassDef) | ('function', Function)"""
    lines = _logical_lines(text)
    if not lines:
        raise MParseError("empty file")
    if lines[0].startswith("classdef"):
        m = re.match(r"classdef\s+([A-Za-z_]\w*)\s*<\s*(.+)$", lines[0])
        if not m:
            raise MParseError("bad classdef line %r" % lines[0])
        cd = ClassDef(m.group(1), m.group(2).strip())
        i = 1
        while i < len(lines):
            ln = lines[i]
            if ln == "end":
                i += 1
                continue
            if re.match(r"properties\b", ln):
                i += 1
                while lines[i] != "end":
                    cd.props.append(lines[i].split("=")[0].strip())
                    i += 1
                i += 1
            elif ln.startswith("function"):
                # a local function after the classdef block: callable from the methods of this file
                fn, i = _parse_function_at(lines, i)
                cd.local_functions[fn.name] = fn
            elif ln == "enumeration":
                i += 1
                while lines[i] != "end":
                    mm = re.match(r"([A-Za-z_]\w*)\((\d+)\)", lines[i])
                    if not mm:
                        raise MParseError("bad enumeration member %r" % lines[i])
                    cd.enum_members.append((mm.group(1), int(mm.group(2))))
                    i += 1
                i += 1
            elif re.match(r"methods\b", ln):
                static = bool(re.search(r"Static(\s*=\s*true)?\s*[,)]", ln)) and not re.search(r"Static\s*=\s*false", ln)
                i += 1
                while lines[i] != "end":
                    fl = lines[i]
                    if not fl.startswith("function"):
                        raise MParseError("expected a function in methods block, found %r" % fl)
                    if re.search(r"\),.*\bend$", fl):       # one-line function (display/disp)
                        i += 1
                        continue
                    m2 = FUNC_RE.match(fl)
                    if not m2:
                        raise MParseError("bad function line %r" % fl)
                    outs = m2.group(1) or ""
                    fn = Function(m2.group(2), outs.strip("[] ").replace(",", " ").split(),
                                  [p.strip() for p in (m2.group(3) or "").split(",") if p.strip()])
                    fn.body, i, _ = parse_block(lines, i + 1, ("end",))
                    i += 1
                    if fn.name.startswith("get."):
                        cd.getters[fn.name[4:]] = fn
                    elif fn.name.startswith("set."):
                        cd.setters[fn.name[4:]] = fn
                    elif static:
                        cd.statics[fn.name] = fn
                    else:
                        cd.methods[fn.name] = fn
                i += 1
            else:
                raise MParseError("unexpected line in classdef: %r" % ln)
        return "class", cd
    if lines[0].startswith("function"):
        m2 = FUNC_RE.match(lines[0])
        if not m2:
            raise MParseError("bad function line %r" % lines[0])
        outs = m2.group(1) or ""
        fn = Function(m2.group(2), outs.strip("[] ").replace(",", " ").split(),
                      [p.strip() for p in (m2.group(3) or "").split(",") if p.strip()])
        fn.body, i, _ = parse_block(lines, 1, ("end",))
        fn.local_functions = {}
        i += 1
        while i < len(lines):
            if lines[i].startswith("function"):
                g, i = _parse_function_at(lines, i)
                fn.local_functions[g.name] = g
            else:
                i += 1
        return "function", fn
    raise MParseError("not a classdef or function file: %r" % lines[0])


def load_toolbox(files):
    """files: {relative path: text}; -> (classes {dotted name: ClassDef}, functions {dotted name: Function})"""
    classes, functions = {}, {}
    for rel in sorted(files):
        if not rel.endswith(".m"):
            continue
        parts = rel.split("/")
        pkg = ".".join(p[1:] for p in parts[:-1] if p.startswith("+"))
        kind, obj = parse_file(files[rel])
        if kind == "class":
            obj.package = pkg
            classes[obj.full] = obj
        else:
            functions[(pkg + "." if pkg else "") + obj.name] = obj
    return classes, functions
