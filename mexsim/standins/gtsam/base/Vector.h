// Minimal stand-ins for the GTSAM/Eigen types matlab.h needs (no Eigen in this sandbox).
// They implement exactly the operations matlab.h uses: size(), operator()(i),
// rows()/cols()/operator()(i,j), construction with sizes, and the Vector <-> PointN
// conversions Eigen provides between dynamic and fixed-size vectors.
#ifndef MEXSIM_STANDIN_VECTOR_H
#define MEXSIM_STANDIN_VECTOR_H
// (the real Eigen/GTSAM headers pull these in; matlab.h relies on that)
#include <cstddef>
#include <cstdint>
#include <iostream>
#include <memory>
#include <vector>

namespace gtsam {

extern long standin_size_mismatches;   // fixed<-dynamic conversions with a wrong length

template <int N> class FixedVector;

class Vector {
 public:
  Vector() {}
  explicit Vector(int n) : d_(n < 0 ? 0 : n, 0.0) {}
  template <int N> Vector(const FixedVector<N>& f);
  int size() const { return (int)d_.size(); }
  int rows() const { return (int)d_.size(); }
  double& operator()(int i) { return d_.at(i); }
  double operator()(int i) const { return d_.at(i); }
  bool operator==(const Vector& o) const { return d_ == o.d_; }
  const std::vector<double>& raw() const { return d_; }
 private:
  std::vector<double> d_;
};

template <int N>
class FixedVector {
 public:
  FixedVector() { for (int i = 0; i < N; ++i) d_[i] = 0.0; }
  FixedVector(const Vector& v) {   // Eigen: fixed = dynamic (asserts equal size)
    if (v.size() != N) ++standin_size_mismatches;
    for (int i = 0; i < N; ++i) d_[i] = i < v.size() ? v(i) : 0.0;
  }
  FixedVector(double x, double y) { static_assert(N == 2, "2 args"); d_[0] = x; d_[1] = y; }
  FixedVector(double x, double y, double z) { static_assert(N == 3, "3 args"); d_[0] = x; d_[1] = y; d_[2] = z; }
  int size() const { return N; }
  double& operator()(int i) { return d_[i]; }
  double operator()(int i) const { return d_[i]; }
  bool operator==(const FixedVector& o) const {
    for (int i = 0; i < N; ++i) if (d_[i] != o.d_[i]) return false;
    return true;
  }
 private:
  double d_[N];
};

template <int N> Vector::Vector(const FixedVector<N>& f) : d_(N) {
  for (int i = 0; i < N; ++i) d_[i] = f(i);
}

}  // namespace gtsam
#endif
