#ifndef MEXSIM_STANDIN_MATRIX_H
#define MEXSIM_STANDIN_MATRIX_H
#include <gtsam/base/Vector.h>
namespace gtsam {
class Matrix {
 public:
  Matrix() : r_(0), c_(0) {}
  Matrix(int r, int c) : r_(r < 0 ? 0 : r), c_(c < 0 ? 0 : c), d_((size_t)r_ * c_, 0.0) {}
  int rows() const { return r_; }
  int cols() const { return c_; }
  // element storage is deliberately ROW-major here: matlab.h must go through (i,j)
  double& operator()(int i, int j) { return d_.at((size_t)i * c_ + j); }
  double operator()(int i, int j) const { return d_.at((size_t)i * c_ + j); }
  bool operator==(const Matrix& o) const { return r_ == o.r_ && c_ == o.c_ && d_ == o.d_; }
 private:
  int r_, c_;
  std::vector<double> d_;
};
}  // namespace gtsam
#endif
