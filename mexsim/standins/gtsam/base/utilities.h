#ifndef MEXSIM_STANDIN_UTILITIES_H
#define MEXSIM_STANDIN_UTILITIES_H
// (RedirectCout etc. are not needed by matlab.h itself)
#endif
