#ifndef MEXSIM_STANDIN_POINT2_H
#define MEXSIM_STANDIN_POINT2_H
#include <gtsam/base/Vector.h>
namespace gtsam { typedef FixedVector<2> Point2; }
#endif
