#ifndef MEXSIM_STANDIN_POINT3_H
#define MEXSIM_STANDIN_POINT3_H
#include <gtsam/base/Vector.h>
namespace gtsam { typedef FixedVector<3> Point3; }
#endif
