// C++ side of the mock MEX runtime: the mxArray representation and the hooks the
// drivers (driver_runtime.cpp for C18, driver_gateway.cpp for C11) use.
#ifndef MEXSIM_HPP
#define MEXSIM_HPP

#include <cstdint>
#include <map>
#include <string>
#include <vector>

extern "C" {
#include <mex.h>
}

struct mxArray_tag {
  mxClassID cls = mxDOUBLE_CLASS;
  std::vector<size_t> dims;               // always >= 2 entries
  bool is_complex = false;
  std::vector<unsigned char> data;        // numeric / char / logical payload (column-major)
  std::vector<std::string> fieldnames;    // struct (1x1 only)
  std::vector<mxArray *> fields;
  std::vector<mxArray *> cells;           // cell array elements
  std::string object_class;               // mxOBJECT_CLASS: MATLAB class name
  std::map<std::string, mxArray *> props; // object properties (owned)
  uint64_t object_id = 0;                 // identity of a MATLAB handle object (0 = value)
  uint32_t magic = 0x6d784172;            // 'mxAr' while alive
  size_t numel() const {
    size_t n = 1;
    for (size_t d : dims) n *= d;
    return n;
  }
};

namespace mexsim {

struct MexError {
  std::string id;
  std::string msg;
};

// handler for mexCallMATLAB: the "MATLAB side" of the simulation
typedef int (*CallHandler)(int nlhs, mxArray *plhs[], int nrhs, mxArray *prhs[], const char *name);
extern CallHandler call_handler;

size_t elem_size(mxClassID c);
mxArray *new_array(mxClassID cls, size_t m, size_t n);
mxArray *new_object(const std::string &cls, uint64_t object_id);
void set_prop(mxArray *obj, const std::string &name, mxArray *value);  // takes ownership
mxArray *prop_ref(const mxArray *obj, const std::string &name);        // no copy, may be null
void check_alive(const mxArray *a, const char *where);

// unload: run (and clear) the registered mexAtExit callbacks; returns how many ran
int run_at_exit();
// drop all global workspace variables (e.g. the RTTI registry)
void clear_globals();
bool has_global(const std::string &name);
void remove_global(const std::string &name);

// arrays allocated and not yet destroyed
size_t live_arrays();
// destroy every array allocated since the given mark that is still alive and not in `keep`
size_t mark();
void free_since(size_t mark, const std::vector<mxArray *> &keep);
std::string describe(const mxArray *a);   // "cls m n hexdata" (values) or "obj <class> <id>"
std::string printed();                    // text sent through mexPrintf since last call (cleared)

}  // namespace mexsim
#endif
