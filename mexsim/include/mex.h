/* Mock of MATLAB's mex.h for the deterministic MEX simulator (/verif/mexsim).
 *
 * matlab.h includes <mex.h> inside  extern "C" { ... } , so this header is plain C
 * declarations over an opaque mxArray.  The implementation is mex_runtime.cpp.
 * Only the part of the MEX/mx API that matlab.h and the generated gateways use is
 * declared; a gateway that starts using another mx* function fails to compile
 * against this mock, which the checks report as a harness limitation (exit 2),
 * never as a violation.
 */
#ifndef MEXSIM_MEX_H
#define MEXSIM_MEX_H

#include <stddef.h>
#include <stdint.h>

#ifdef __cplusplus
extern "C" {
#endif

typedef struct mxArray_tag mxArray;
typedef size_t mwSize;
typedef size_t mwIndex;
typedef int32_t int32_T;
typedef uint16_t mxChar;

typedef enum {
  mxUNKNOWN_CLASS = 0,
  mxCELL_CLASS,
  mxSTRUCT_CLASS,
  mxLOGICAL_CLASS,
  mxCHAR_CLASS,
  mxVOID_CLASS,
  mxDOUBLE_CLASS,
  mxSINGLE_CLASS,
  mxINT8_CLASS,
  mxUINT8_CLASS,
  mxINT16_CLASS,
  mxUINT16_CLASS,
  mxINT32_CLASS,
  mxUINT32_CLASS,
  mxINT64_CLASS,
  mxUINT64_CLASS,
  mxFUNCTION_CLASS,
  mxOPAQUE_CLASS,
  mxOBJECT_CLASS
} mxClassID;

typedef enum { mxREAL = 0, mxCOMPLEX } mxComplexity;

/* errors: never return (the mock throws a C++ exception that unwinds to the driver) */
void mexErrMsgTxt(const char *msg);
void mexErrMsgIdAndTxt(const char *id, const char *fmt, ...);
int mexPrintf(const char *fmt, ...);

/* creation */
mxArray *mxCreateNumericArray(mwSize ndim, const mwSize *dims, mxClassID classid, mxComplexity flag);
mxArray *mxCreateNumericMatrix(mwSize m, mwSize n, mxClassID classid, mxComplexity flag);
mxArray *mxCreateDoubleMatrix(mwSize m, mwSize n, mxComplexity flag);
mxArray *mxCreateDoubleScalar(double value);
mxArray *mxCreateString(const char *str);
mxArray *mxCreateStructMatrix(mwSize m, mwSize n, int nfields, const char **fieldnames);
mxArray *mxCreateLogicalScalar(int value);
mxArray *mxDuplicateArray(const mxArray *in);
void mxDestroyArray(mxArray *a);
void mxFree(void *p);

/* inspection */
void *mxGetData(const mxArray *a);
double *mxGetPr(const mxArray *a);
size_t mxGetM(const mxArray *a);
size_t mxGetN(const mxArray *a);
mxClassID mxGetClassID(const mxArray *a);
double mxGetScalar(const mxArray *a);
int mxIsDouble(const mxArray *a);
int mxIsComplex(const mxArray *a);
int mxIsChar(const mxArray *a);
char *mxArrayToString(const mxArray *a);
int mxGetString(const mxArray *a, char *buf, mwSize buflen);

/* structs and objects */
mxArray *mxGetField(const mxArray *a, mwIndex index, const char *fieldname);
int mxAddField(mxArray *a, const char *fieldname);
void mxSetFieldByNumber(mxArray *a, mwIndex index, int fieldnumber, mxArray *value);
mxArray *mxGetProperty(const mxArray *a, mwIndex index, const char *propname);

/* calling back into MATLAB, workspace variables, unload hook */
int mexCallMATLAB(int nlhs, mxArray *plhs[], int nrhs, mxArray *prhs[], const char *name);
const mxArray *mexGetVariablePtr(const char *workspace, const char *name);
mxArray *mexGetVariable(const char *workspace, const char *name);
int mexPutVariable(const char *workspace, const char *name, const mxArray *value);
int mexAtExit(void (*fn)(void));

#ifdef __cplusplus
}
#endif
#endif
