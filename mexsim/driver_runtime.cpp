// C18 driver: executes an op script (stdin) against the working tree's matlab.h compiled
// with the mock MEX runtime, and prints one result line per op (stdout).
//
// The MATLAB side of create_object() -- the proxy-class constructor that real MATLAB runs
// from the generated .m file -- is emulated by `matlab_side()` below with the statements the
// generator emits (collectorInsertAndMakeBase / upcastFromVoid / deconstructor bodies).
#include <cstdio>
#include <cstdlib>
#include <cstring>
#include <iostream>
#include <map>
#include <memory>
#include <set>
#include <sstream>
#include <string>
#include <vector>

#include <mexsim.hpp>
#include <gtwrap/matlab.h>    // the header under test (copied from /repo's working tree)

namespace gtsam { long standin_size_mismatches = 0; }

// ---------------------------------------------------------------------------------------
// instrumented wrapped class
// ---------------------------------------------------------------------------------------
static long g_next_serial = 1;
static std::map<const void *, long> g_live;      // address -> serial
static std::set<long> g_destroyed;
static long g_double_destroy = 0;

class Tracked {
 public:
  Tracked() : serial(g_next_serial++) { g_live[this] = serial; }
  virtual ~Tracked() {
    if (!g_live.erase(this) || !g_destroyed.insert(serial).second) ++g_double_destroy;
  }
  long serial;
};
class Obj : public Tracked {};
// a second, unrelated wrapped class (a toolbox has many): its handles share the allocator with Obj's
class Other : public Tracked {
 public:
  long payload = 7;
};
// a MATLAB class name longer than any plausible fixed-size buffer (the RTTI path copies it out of the registry)
static const char *const DERIVED_MATLAB_NAME =
    "gtsamunstable.partition.DerivedObjectWithAnUnusuallyLongMatlabClassNameToOutgrowFixedBuffers0123456789";
class Derived : public Obj {
 public:
  double extra = 1.0;
};

static std::map<long, std::weak_ptr<Tracked>> g_weak;   // serial -> weak ref (for use_count)

typedef std::set<std::shared_ptr<Obj> *> Collector_Obj;
static Collector_Obj collector_Obj;
static Collector_Obj collector_Derived;
typedef std::set<std::shared_ptr<Other> *> Collector_Other;
static Collector_Other collector_Other;
static std::set<const void *> g_freed_handles;     // addresses of deleted heap shared_ptrs (never dereferenced)
static long g_recycled = 0, g_recycled_other_class = 0;
static std::map<const void *, int> g_freed_class;

static void _deleteAllObjects() {
  for (auto *c : {&collector_Obj, &collector_Derived})
    for (auto it = c->begin(); it != c->end();) {
      delete *it;
      c->erase(it++);
    }
  for (auto it = collector_Other.begin(); it != collector_Other.end();) {
    delete *it;
    collector_Other.erase(it++);
  }
}

static uint64_t g_next_object_id = 1;

// what the generated proxy constructor + collectorInsertAndMakeBase/upcastFromVoid do
static int matlab_side(int nlhs, mxArray *plhs[], int nrhs, mxArray *prhs[], const char *name) {
  std::string cls = name;
  if (cls == "Obj" || cls == DERIVED_MATLAB_NAME) {
    if (nrhs < 2 || mxGetClassID(prhs[0]) != mxUINT64_CLASS ||
        *reinterpret_cast<uint64_t *>(mxGetData(prhs[0])) != ptr_constructor_key)
      mexErrMsgTxt("Arguments do not match any overload of constructor");
    mxArray *my_ptr;
    typedef std::shared_ptr<Obj> Shared;
    if (nrhs == 2) {
      my_ptr = mxDuplicateArray(prhs[1]);
    } else {
      // <Class>_upcastFromVoid
      mexAtExit(&_deleteAllObjects);
      std::shared_ptr<void> *asVoid = *reinterpret_cast<std::shared_ptr<void> **>(mxGetData(prhs[1]));
      my_ptr = mxCreateNumericMatrix(1, 1, mxUINT32OR64_CLASS, mxREAL);
      Shared *self = new Shared(std::static_pointer_cast<Obj>(*asVoid));
      *reinterpret_cast<Shared **>(mxGetData(my_ptr)) = self;
    }
    // <Class>_collectorInsertAndMakeBase
    mexAtExit(&_deleteAllObjects);
    Shared *self = *reinterpret_cast<Shared **>(mxGetData(my_ptr));
    (cls == "Obj" ? collector_Obj : collector_Derived).insert(self);
    mxArray *obj = mexsim::new_object(cls, g_next_object_id++);
    mexsim::set_prop(obj, "ptr_Obj", my_ptr);
    if (nlhs >= 1) plhs[0] = obj;
    return 0;
  }
  if (cls == "Other") {
    if (nrhs < 2 || mxGetClassID(prhs[0]) != mxUINT64_CLASS ||
        *reinterpret_cast<uint64_t *>(mxGetData(prhs[0])) != ptr_constructor_key)
      mexErrMsgTxt("Arguments do not match any overload of constructor");
    mxArray *my_ptr;
    typedef std::shared_ptr<Other> Shared;
    if (nrhs == 2) {
      my_ptr = mxDuplicateArray(prhs[1]);
    } else {
      mexAtExit(&_deleteAllObjects);
      std::shared_ptr<void> *asVoid = *reinterpret_cast<std::shared_ptr<void> **>(mxGetData(prhs[1]));
      my_ptr = mxCreateNumericMatrix(1, 1, mxUINT32OR64_CLASS, mxREAL);
      Shared *self = new Shared(std::static_pointer_cast<Other>(*asVoid));
      *reinterpret_cast<Shared **>(mxGetData(my_ptr)) = self;
    }
    mexAtExit(&_deleteAllObjects);
    Shared *self = *reinterpret_cast<Shared **>(mxGetData(my_ptr));
    collector_Other.insert(self);
    mxArray *obj = mexsim::new_object(cls, g_next_object_id++);
    mexsim::set_prop(obj, "ptr_Other", my_ptr);
    if (nlhs >= 1) plhs[0] = obj;
    return 0;
  }
  mexErrMsgTxt(("mexCallMATLAB: unknown function " + cls).c_str());
  return 1;
}

// ---------------------------------------------------------------------------------------
static std::string hexs(const void *p, size_t n) {
  static const char *h = "0123456789abcdef";
  std::string s;
  const unsigned char *b = (const unsigned char *)p;
  for (size_t i = 0; i < n; ++i) {
    s.push_back(h[b[i] >> 4]);
    s.push_back(h[b[i] & 15]);
  }
  return n ? s : "-";
}
static std::vector<unsigned char> unhex(const std::string &s) {
  std::vector<unsigned char> out;
  if (s == "-") return out;
  for (size_t i = 0; i + 1 < s.size(); i += 2) out.push_back((unsigned char)std::stoi(s.substr(i, 2), nullptr, 16));
  return out;
}
static double hex2d(const std::string &s) {
  auto b = unhex(s);
  double d = 0;
  if (b.size() == 8) std::memcpy(&d, b.data(), 8);
  return d;
}
static std::string d2hex(double d) { return hexs(&d, 8); }

static std::map<int, mxArray *> slots;
static int next_slot = 1;
static std::map<int, std::shared_ptr<Tracked>> held;
static int next_held = 1;

static int put(mxArray *a) {
  slots[next_slot] = a;
  return next_slot++;
}

static void install_rtti() {
  const char *none[] = {nullptr};
  mxArray *reg = mxCreateStructMatrix(1, 1, 0, none);
  int f1 = mxAddField(reg, typeid(Obj).name());
  mxSetFieldByNumber(reg, 0, f1, mxCreateString("Obj"));
  int f2 = mxAddField(reg, typeid(Derived).name());
  mxSetFieldByNumber(reg, 0, f2, mxCreateString(DERIVED_MATLAB_NAME));
  int f3 = mxAddField(reg, typeid(Other).name());
  mxSetFieldByNumber(reg, 0, f3, mxCreateString("Other"));
  mexPutVariable("global", "gtsamwrap_rttiRegistry", reg);
  mxDestroyArray(reg);
}

static std::string run(std::istringstream &in) {
  std::string op;
  in >> op;
  std::ostringstream out;
  if (op == "wrap") {
    std::string ty;
    in >> ty;
    mxArray *a = nullptr;
    if (ty == "bool") { long v; in >> v; a = wrap<bool>(v != 0); }
    else if (ty == "char") { long v; in >> v; a = wrap<char>((char)v); }
    else if (ty == "uchar") { long v; in >> v; a = wrap<unsigned char>((unsigned char)v); }
    else if (ty == "int") { long v; in >> v; a = wrap<int>((int)v); }
    else if (ty == "size_t") { unsigned long long v; in >> v; a = wrap<size_t>((size_t)v); }
    else if (ty == "double") { std::string h; in >> h; a = wrap<double>(hex2d(h)); }
    else if (ty == "string") { std::string h; in >> h; auto b = unhex(h); a = wrap<string>(std::string(b.begin(), b.end())); }
    else if (ty == "Vector" || ty == "Point2" || ty == "Point3") {
      int n; in >> n;
      gtsam::Vector v(n);
      for (int i = 0; i < n; ++i) { std::string h; in >> h; v(i) = hex2d(h); }
      if (ty == "Vector") a = wrap<gtsam::Vector>(v);
      else if (ty == "Point2") a = wrap<gtsam::Point2>(gtsam::Point2(v));
      else a = wrap<gtsam::Point3>(gtsam::Point3(v));
    } else if (ty == "Matrix") {
      int m, n; in >> m >> n;
      gtsam::Matrix A(m, n);
      for (int i = 0; i < m; ++i) for (int j = 0; j < n; ++j) { std::string h; in >> h; A(i, j) = hex2d(h); }
      a = wrap<gtsam::Matrix>(A);
    } else return "bad unknown-type";
    out << "arr " << put(a) << " " << mexsim::describe(a);
  } else if (op == "unwrap") {
    std::string ty; int s;
    in >> ty >> s;
    if (!slots.count(s)) return "bad no-slot";
    const mxArray *a = slots[s];
    if (ty == "bool") out << "val " << (unwrap<bool>(a) ? 1 : 0);
    else if (ty == "char") out << "val " << (long)unwrap<char>(a);
    else if (ty == "uchar") out << "val " << (long)unwrap<unsigned char>(a);
    else if (ty == "int") out << "val " << (long)unwrap<int>(a);
    else if (ty == "size_t") out << "val " << (unsigned long long)unwrap<size_t>(a);
    else if (ty == "double") out << "val " << d2hex(unwrap<double>(a));
    else if (ty == "string") { std::string v = unwrap<string>(a); out << "val " << hexs(v.data(), v.size()); }
    else if (ty == "Vector") { gtsam::Vector v = unwrap<gtsam::Vector>(a); out << "val " << v.size(); for (int i = 0; i < v.size(); ++i) out << " " << d2hex(v(i)); }
    else if (ty == "Point2") { gtsam::Point2 v = unwrap<gtsam::Point2>(a); out << "val 2 " << d2hex(v(0)) << " " << d2hex(v(1)); }
    else if (ty == "Point3") { gtsam::Point3 v = unwrap<gtsam::Point3>(a); out << "val 3 " << d2hex(v(0)) << " " << d2hex(v(1)) << " " << d2hex(v(2)); }
    else if (ty == "Matrix") {
      gtsam::Matrix A = unwrap<gtsam::Matrix>(a);
      out << "val " << A.rows() << " " << A.cols();
      for (int i = 0; i < A.rows(); ++i) for (int j = 0; j < A.cols(); ++j) out << " " << d2hex(A(i, j));
    } else return "bad unknown-type";
  } else if (op == "mk") {
    int cls; size_t m, n; std::string h; int cplx = 0;
    in >> cls >> m >> n >> h >> cplx;
    mxArray *a;
    if (cls == mxCELL_CLASS) a = mexsim::new_array(mxCELL_CLASS, m, n);
    else if (cls == mxSTRUCT_CLASS) { const char *none[] = {nullptr}; a = mxCreateStructMatrix(m, n, 0, none); }
    else {
      a = mxCreateNumericMatrix(m, n, (mxClassID)cls, cplx ? mxCOMPLEX : mxREAL);
      auto b = unhex(h);
      size_t k = b.size() < a->data.size() ? b.size() : a->data.size();
      if (k) std::memcpy(a->data.data(), b.data(), k);
    }
    out << "arr " << put(a) << " " << mexsim::describe(a);
  } else if (op == "new") {
    int which; in >> which;
    std::shared_ptr<Tracked> p = which == 2 ? std::shared_ptr<Tracked>(new Other())
                                 : which ? std::shared_ptr<Tracked>(new Derived()) : std::shared_ptr<Tracked>(new Obj());
    g_weak[p->serial] = p;
    held[next_held] = p;
    out << "held " << next_held << " " << p->serial;
    ++next_held;
  } else if (op == "wsp") {
    int h, virt; in >> h >> virt;
    if (!held.count(h)) return "bad no-held";
    std::shared_ptr<Other> asOther = std::dynamic_pointer_cast<Other>(held[h]);
    mxArray *o = asOther ? wrap_shared_ptr(asOther, "Other", virt != 0)
                         : wrap_shared_ptr(std::static_pointer_cast<Obj>(held[h]), "Obj", virt != 0);
    {
      bool other = o->object_class == "Other";
      const void *addr = *reinterpret_cast<void **>(mxGetData(mexsim::prop_ref(o, other ? "ptr_Other" : "ptr_Obj")));
      if (g_freed_handles.count(addr)) {
        ++g_recycled;
        if (g_freed_class[addr] != (other ? 1 : 0)) ++g_recycled_other_class;
        g_freed_handles.erase(addr);
      }
    }
    out << "obj " << put(o) << " " << o->object_class;
  } else if (op == "usp") {
    int s, keep; in >> s >> keep;
    if (!slots.count(s)) return "bad no-slot";
    std::shared_ptr<Tracked> p;
    if (slots[s]->object_class == "Other") p = unwrap_shared_ptr<Other>(slots[s], "ptr_Other");
    else p = unwrap_shared_ptr<Obj>(slots[s], "ptr_Obj");
    auto it = g_live.find(p.get());
    long serial = it == g_live.end() ? -1 : it->second;
    out << "sp " << serial;
    if (keep) { held[next_held] = p; out << " held " << next_held; ++next_held; }
  } else if (op == "uptr") {
    int s; in >> s;
    if (!slots.count(s)) return "bad no-slot";
    Tracked *p;
    if (slots[s]->object_class == "Other") p = unwrap_ptr<Other>(slots[s], "ptr_Other");
    else p = unwrap_ptr<Obj>(slots[s], "ptr_Obj");
    auto it = g_live.find(p);          // never dereferenced unless it is a live object
    out << "ptr " << (it == g_live.end() ? -1 : it->second);
  } else if (op == "drop") {
    int h; in >> h;
    held.erase(h);
    out << "ok";
  } else if (op == "del") {
    int s; in >> s;
    if (!slots.count(s)) return "bad no-slot";
    mxArray *o = slots[s];
    // <Class>_deconstructor, called with obj.ptr_<Class>
    if (o->object_class == "Other") {
      typedef std::shared_ptr<Other> Shared;
      mxArray *h = mexsim::prop_ref(o, "ptr_Other");
      Shared *self = *reinterpret_cast<Shared **>(mxGetData(h));
      auto item = collector_Other.find(self);
      if (item != collector_Other.end()) collector_Other.erase(item);
      g_freed_handles.insert(self);
      g_freed_class[self] = 1;
      delete self;
    } else {
    typedef std::shared_ptr<Obj> Shared;
    mxArray *h = mexsim::prop_ref(o, "ptr_Obj");
    Shared *self = *reinterpret_cast<Shared **>(mxGetData(h));
    Collector_Obj &c = o->object_class == "Obj" ? collector_Obj : collector_Derived;
    auto item = c.find(self);
    if (item != c.end()) c.erase(item);
    g_freed_handles.insert(self);
    g_freed_class[self] = 0;
    delete self;
    }
    mxDestroyArray(o);
    slots.erase(s);
    out << "ok";
  } else if (op == "free") {      // discard a value array (MATLAB variable cleared)
    int s; in >> s;
    if (slots.count(s)) { mxDestroyArray(slots[s]); slots.erase(s); }
    out << "ok";
  } else if (op == "rtti") {
    int on; in >> on;
    if (on) install_rtti(); else mexsim::remove_global("gtsamwrap_rttiRegistry");
    out << "ok";
  } else if (op == "unload") {
    int n = mexsim::run_at_exit();
    // MATLAB objects die with `clear all`: their delete methods find the collectors already empty
    for (auto it = slots.begin(); it != slots.end();) {
      if (it->second->cls == mxOBJECT_CLASS) { mxDestroyArray(it->second); it = slots.erase(it); }
      else ++it;
    }
    out << "unloaded " << n;
  } else if (op == "stat") {
    out << "stat live=";
    bool first = true;
    for (auto &kv : g_weak) {
      long uc = kv.second.use_count();
      if (uc > 0) { out << (first ? "" : ",") << kv.first << ":" << uc; first = false; }
    }
    if (first) out << "-";
    out << " collector=" << (collector_Obj.size() + collector_Derived.size() + collector_Other.size()) << " destroyed=" << g_destroyed.size()
        << " doubledestroy=" << g_double_destroy << " arrays=" << mexsim::live_arrays()
        << " sizemismatch=" << gtsam::standin_size_mismatches;
  } else {
    return "bad unknown-op";
  }
  return out.str();
}

int main() {
  mexsim::call_handler = &matlab_side;
  std::ios::sync_with_stdio(false);
  std::string line;
  while (std::getline(std::cin, line)) {
    if (line.empty()) continue;
    std::istringstream in(line);
    size_t mk = mexsim::mark();
    std::string res;
    try {
      res = run(in);
    } catch (const mexsim::MexError &e) {
      res = "err " + hexs(e.msg.data(), e.msg.size()) + " " + hexs(e.id.data(), e.id.size());
    } catch (const std::exception &e) {
      res = std::string("exc ") + e.what();
    }
    std::vector<mxArray *> keep;
    for (auto &kv : slots) keep.push_back(kv.second);
    mexsim::free_since(mk, keep);
    std::cout << res << "\n";
  }
  std::cout << "end\n";
  std::cout.flush();
  std::cerr << "probe recycled=" << g_recycled << " recycled_other_class=" << g_recycled_other_class << "\n";
  return 0;
}
