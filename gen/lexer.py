"""Independent comment stripper and dumb tokenizer for the token-bag oracle (C07).

Deliberately knows nothing about wrap's grammar:
  * comments: //... to end of line, /* ... */ (an unterminated /* is NOT a comment:
    wrap cannot skip it either);
  * string / char literals "..." and '...' are single tokens (no escape handling:
    the dialect's default-argument rule has none);
  * identifiers / numbers [A-Za-z0-9_]+ are single tokens;
  * every other non-space character is a token of its own.
"""
import collections


def scan(text):
    """-> (tokens, comments).  tokens: list of str; comments: list of str."""
    toks, comments = [], []
    i, n = 0, len(text)
    while i < n:
        c = text[i]
        if c.isspace():
            i += 1
            continue
        if c == "/" and i + 1 < n and text[i + 1] == "/":
            j = text.find("\n", i)
            j = n if j < 0 else j
            comments.append(text[i:j])
            i = j
            continue
        if c == "/" and i + 1 < n and text[i + 1] == "*":
            j = text.find("*/", i + 2)
            if j >= 0:
                comments.append(text[i:j + 2])
                i = j + 2
                continue
            # unterminated: ordinary characters
        if c in "\"'":
            j = text.find(c, i + 1)
            if j < 0:
                toks.append(text[i:])       # unterminated literal: rest of the text
                break
            toks.append(text[i:j + 1])
            i = j + 1
            continue
        if c.isalnum() or c == "_":
            j = i + 1
            while j < n and (text[j].isalnum() or text[j] == "_"):
                j += 1
            toks.append(text[i:j])
            i = j
            continue
        toks.append(c)
        i += 1
    return toks, comments


def normalise(tokens):
    """The two grammar-level normalisations (keywords the grammar consumes with no
    slot in the tree): `std ::` directly before `pair <`, and `enum class|struct` ->
    `enum`."""
    out = []
    i, n = 0, len(tokens)
    while i < n:
        t = tokens[i]
        if t == "std" and tokens[i + 1:i + 5] == [":", ":", "pair", "<"]:
            i += 3
            continue
        if t == "enum" and i + 1 < n and tokens[i + 1] in ("class", "struct"):
            out.append("enum")
            i += 2
            continue
        out.append(t)
        i += 1
    return out


def bag(tokens):
    return collections.Counter(tokens)


def bag_diff(a, b):
    """-> (missing_from_b, extra_in_b) as sorted lists of (token, count)"""
    miss = sorted(((k, v - b.get(k, 0)) for k, v in a.items() if v > b.get(k, 0)))
    extra = sorted(((k, v - a.get(k, 0)) for k, v in b.items() if v > a.get(k, 0)))
    return miss, extra


def bracket_counts(tokens):
    c = collections.Counter(t for t in tokens if t in "{}()" and len(t) == 1)
    return c
