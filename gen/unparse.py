"""Render a wrap parse tree (gtwrap.interface_parser objects, BEFORE template
instantiation) back to text, for the token-bag oracle of C07: what did the tool
actually understand?  Only token content matters (the oracle compares bags), so
the layout is arbitrary and member order across kinds is whatever Class keeps.

Coupled to the tree's attribute names by necessity (the property's own observe_at
says: "token stream re-rendered from the accepted tree").  A renamed attribute
surfaces as a harness error (exit 2), never as a verdict.
"""
import gtwrap.interface_parser as P
from gtwrap.interface_parser.template import Template


class UnparseError(Exception):
    pass


KNOWN_FLAGS = {"is_const", "is_virtual", "is_shared_ptr", "is_ptr", "is_ref", "is_basic", "is_static"}


def extra_flags(x):
    """A tree that has learnt new keywords since this renderer was written records them, by the tree's own
    convention, as `is_<keyword>` attributes: a true one is rendered as that keyword, so that a dialect
    extension which DOES account for its tokens is not mistaken for one that drops them."""
    out = []
    try:
        attrs = vars(x)
    except TypeError:
        return ""
    for k in sorted(attrs):
        if k.startswith("is_") and k not in KNOWN_FLAGS and attrs[k] is True:
            out.append(k[3:])
    return (" ".join(out) + " ") if out else ""


def typename(tn):
    s = "::".join(list(tn.namespaces) + [str(tn.name)])
    insts = getattr(tn, "instantiations", None)
    if insts:
        s += " < " + " , ".join(typename(i) for i in insts) + " >"
    return s


def ctype(t):
    if isinstance(t, P.TemplatedType):
        s = ("const " if t.is_const else "") + "::".join(list(t.typename.namespaces) + [str(t.typename.name)])
        s += " < " + " , ".join(ctype(p) for p in t.template_params) + " >"
        s += " " + (t.is_shared_ptr or "") + (t.is_ptr or "") + (t.is_ref or "")
        return s
    if isinstance(t, P.Type):
        return ("const " if t.is_const else "") + typename(t.typename) + " " + \
            (t.is_shared_ptr or "") + (t.is_ptr or "") + (t.is_ref or "")
    # pyparsing may hand us a one-element ParseResults
    try:
        return ctype(t[0])
    except Exception:
        raise UnparseError("unknown type node %r" % (t,))


def template(tm):
    if not isinstance(tm, Template):
        return ""
    parts = []
    for name, insts in zip(tm.typenames, tm.instantiations):
        if insts:
            parts.append("%s = { %s }" % (name, " , ".join(typename(i) for i in insts)))
        else:
            parts.append(str(name))
    return "template < %s > " % " , ".join(parts)


def args(al):
    out = []
    for a in al.list():
        s = ctype(a.ctype) + " " + str(a.name)
        if a.default is not None:
            s += " = " + str(a.default)
        out.append(s)
    return " , ".join(out)


def ret(r):
    if r.type2:
        return "pair < %s , %s >" % (ctype(r.type1), ctype(r.type2))
    return ctype(r.type1)


def node(x):
    if isinstance(x, P.Namespace):
        body = " ".join(node(c) for c in x.content)
        return body if x.name == "" else "namespace %s { %s }" % (x.name, body)
    if isinstance(x, P.Class):
        s = template(x.template)
        if x.is_virtual:
            s += "virtual "
        s += "class %s " % x.name
        if x.parent_class:
            pc = x.parent_class
            s += ": " + (ctype(pc) if isinstance(pc, (P.TemplatedType, P.Type)) else typename(pc)) + " "
        members = []
        for c in x.ctors:
            members.append("%s%s%s ( %s ) ;" % (extra_flags(c), template(c.template), c.name, args(c.args)))
        for m in x.methods:
            members.append("%s%s %s ( %s ) %s%s;" % (template(m.template), ret(m.return_type), m.name,
                                                     args(m.args), "const " if m.is_const else "", extra_flags(m)))
        for m in x.static_methods:
            members.append("%sstatic %s %s ( %s ) %s;" % (template(m.template), ret(m.return_type), m.name,
                                                           args(m.args), extra_flags(m)))
        for d in x.dunder_methods:
            members.append("__%s__ ( %s ) ;" % (d.name, args(d.args)))
        for p in x.properties:
            members.append(variable(p))
        for o in x.operators:
            members.append("%s operator %s ( %s ) %s;" % (ret(o.return_type), o.operator, args(o.args),
                                                          "const " if o.is_const else ""))
        for e in x.enums:
            members.append(node(e))
        return s + "{ " + " ".join(members) + " } ;"
    if isinstance(x, P.Enum):
        return "enum %s { %s } ;" % (x.name, " , ".join(str(e.name) for e in x.enumerators))
    if isinstance(x, P.Variable):
        return variable(x)
    if isinstance(x, P.GlobalFunction):
        return "%s%s %s ( %s ) %s;" % (template(x.template), ret(x.return_type), x.name, args(x.args), extra_flags(x))
    if isinstance(x, P.Include):
        # on a line of its own: the header is copied verbatim and may (after a corruption that glued an
        # unterminated include to the following text) contain a `//` -- the lexer must not take the rest
        # of the re-rendered module for the tail of that comment
        return "\n#include <%s>\n" % x.header
    if isinstance(x, P.ForwardDeclaration):
        s = ("virtual " if x.is_virtual else "") + "class " + typename(x.typename)
        if x.parent_type:
            s += " : " + typename(x.parent_type)
        return s + " ;"
    if isinstance(x, P.TypedefTemplateInstantiation):
        return "typedef %s %s ;" % (typename(x.typename), x.new_name)
    raise UnparseError("unknown node %r" % type(x).__name__)


def variable(v):
    s = ctype(v.ctype) + " " + str(v.name)
    if v.default is not None:
        s += " = " + str(v.default)
    return s + " ;"


def unparse(module):
    return node(module)
