"""Tape-driven generator of interface files in the documented dialect (DOCS.md).

It builds a *model* (plain Python objects) and renders it to a list of lexemes and
then to text.  The model is kept, so oracles never consult wrap's own parser for
ground truth.  Two profiles:

  pybind : the wide dialect (templates, typedefs, operators, dunder methods,
           templated types, variables, enums, forward declarations, includes).
  matlab : the sub-dialect that MatlabWrapper turns into a toolbox without raising
           (determined empirically against the pinned tree; see PROFILE notes).

Every random decision goes through the tape; 0 is always the simplest choice, so
an all-zero tape yields a one-declaration file.
"""

BASIC = ["int", "double", "bool", "size_t", "char", "unsigned char", "float"]
EIGEN = ["gtsam::Vector", "gtsam::Matrix", "gtsam::Point2", "gtsam::Point3"]
CLASS_STEMS = ["Alpha", "Beta", "Gamma", "Delta", "Kappa", "Lambda", "Sigma", "Omega",
               "Pose", "Rot", "Cal", "Graph", "Values", "Factor", "Noise", "Key"]
NS_NAMES = ["gtsam", "ns1", "ns2", "inner", "geo", "nav"]
METHOD_NAMES = ["get", "set", "value", "dim", "print", "equals", "retract", "update",
                "compose", "between", "insert", "at", "size", "norm", "apply", "lambda",
                "svg", "run", "fooBar", "x"]
STATIC_NAMES = ["Create", "Identity", "Expmap", "Random", "make", "FromVector", "zero"]
ARG_NAMES = ["a", "b", "c", "x", "y", "t", "key", "value", "other", "p1", "p2", "name",
             "tol", "s", "n", "model", "pose"]
FUNC_NAMES = ["load", "save", "compute", "aGlobal", "overloaded", "helper", "solve",
              "transform", "make_it", "print"]
ENUM_NAMES = ["Kind", "Color", "Verbosity", "Mode", "Status"]
ENUMERATORS = ["Red", "Green", "Blue", "SILENT", "SUMMARY", "VALUES", "Dog", "Cat", "A", "B",
               "OK", "FAIL"]
VAR_NAMES = ["kGravity", "kTolerance", "kMaxIter", "kName", "kFlag"]
TPARAMS = ["T", "POSE", "ARG", "U", "CAL"]
HEADERS = ["gtsam/base/Vector.h", "gtsam/geometry/Point2.h", "path/to/ns1.h", "folder/x.h",
           "vector", "a/b/c_d-e.hpp"]
COMMENT_WORDS = ["a comment", "class Foo { };", "void f();", "it's \"quoted\"", "}{;;(",
                 "namespace x {", "André üñî 中", "TODO: fix", "", "template<T>",
                 "const int* p = 0;", "* stars *"]


class Ty:
    """A type expression."""

    def __init__(self, name, const=False, mod="", targs=None):
        self.name, self.const, self.mod, self.targs = name, const, mod, targs

    def lex(self):
        out = []
        if self.const:
            out.append("const")
        out.append(self.name)
        if self.targs is not None:
            out.append("<")
            for i, t in enumerate(self.targs):
                if i:
                    out.append(",")
                out.extend(t.lex())
            out.append(">")
        if self.mod:
            out.append(self.mod)
        return out

    def is_void(self):
        return self.name == "void" and self.targs is None

    def __repr__(self):
        return " ".join(self.lex())


class Arg:
    def __init__(self, ty, name, default=None):
        self.ty, self.name, self.default = ty, name, default

    def lex(self):
        out = self.ty.lex() + [self.name]
        if self.default is not None:
            out += ["=", self.default]
        return out


class Ret:
    def __init__(self, t1, t2=None, std=False):
        self.t1, self.t2, self.std = t1, t2, std

    def lex(self):
        if self.t2 is None:
            return self.t1.lex()
        return (["std::pair"] if self.std else ["pair"]) + ["<"] + self.t1.lex() + [","] + \
            self.t2.lex() + [">"]


class Tmpl:
    """template<P1 = {A, B}, P2>"""

    def __init__(self, params):
        self.params = params  # [(name, [Ty] or None)]

    def lex(self):
        out = ["template", "<"]
        for i, (n, insts) in enumerate(self.params):
            if i:
                out.append(",")
            out.append(n)
            if insts is not None:
                out += ["=", "{"]
                for j, t in enumerate(insts):
                    if j:
                        out.append(",")
                    out.extend(t.lex())
                out.append("}")
        out.append(">")
        return out


class Func:
    """ctor / method / static / global function / operator / dunder"""

    def __init__(self, kind, name, ret, args, tmpl=None, const=False, op=None):
        self.kind, self.name, self.ret, self.args = kind, name, ret, args
        self.tmpl, self.const, self.op = tmpl, const, op

    def lex(self):
        out = []
        if self.tmpl:
            out += self.tmpl.lex()
        if self.kind == "static":
            out.append("static")
        if self.kind == "dunder":
            out += ["__%s__" % self.name]
        elif self.kind == "ctor":
            out += [self.name]
        elif self.kind == "operator":
            out += self.ret.lex() + ["operator" + self.op]
        else:
            out += self.ret.lex() + [self.name]
        out.append("(")
        for i, a in enumerate(self.args):
            if i:
                out.append(",")
            out.extend(a.lex())
        out.append(")")
        if self.const:
            out.append("const")
        out.append(";")
        return out


class Var:
    def __init__(self, ty, name, default=None):
        self.ty, self.name, self.default = ty, name, default

    def lex(self):
        out = self.ty.lex() + [self.name]
        if self.default is not None:
            out += ["=", self.default]
        return out + [";"]


class Enum:
    def __init__(self, name, enumerators, style="enum"):
        self.name, self.enumerators, self.style = name, enumerators, style

    def lex(self):
        out = [self.style, self.name, "{"]
        for i, e in enumerate(self.enumerators):
            if i:
                out.append(",")
            out.append(e)
        return out + ["}", ";"]


class Class:
    def __init__(self, name, ns):
        self.name, self.ns = name, list(ns)
        self.virtual = False
        self.parent = None          # qualified name (str) or Ty (templated)
        self.tmpl = None
        self.members = []           # in source order: Func | Var | Enum

    @property
    def qname(self):
        return "::".join(self.ns + [self.name])

    def of(self, kind):
        return [m for m in self.members if isinstance(m, Func) and m.kind == kind]

    def props(self):
        return [m for m in self.members if isinstance(m, Var)]

    def enums(self):
        return [m for m in self.members if isinstance(m, Enum)]

    def lex(self):
        out = []
        if self.tmpl:
            out += self.tmpl.lex()
        if self.virtual:
            out.append("virtual")
        out += ["class", self.name]
        if self.parent is not None:
            out.append(":")
            out += self.parent.lex() if isinstance(self.parent, Ty) else [self.parent]
        out.append("{")
        for m in self.members:
            out += m.lex()
        return out + ["}", ";"]


class Fwd:
    def __init__(self, qname, virtual=False, parent=None):
        self.qname, self.virtual, self.parent = qname, virtual, parent

    def lex(self):
        out = (["virtual"] if self.virtual else []) + ["class", self.qname]
        if self.parent:
            out += [":", self.parent]
        return out + [";"]


class Include:
    def __init__(self, header):
        self.header = header

    def lex(self):
        return ["#include <%s>" % self.header]       # one lexeme: no filler inside <...>


class Typedef:
    def __init__(self, ty, new_name):
        self.ty, self.new_name = ty, new_name

    def lex(self):
        return ["typedef"] + self.ty.lex() + [self.new_name, ";"]


class Namespace:
    def __init__(self, name, ns):
        self.name, self.ns, self.content = name, list(ns), []

    def lex(self, marks=None):
        out = ["namespace", self.name, "{"]
        for c in self.content:
            out += c.lex()
        return out + ["}"]


class Module:
    def __init__(self):
        self.content = []

    def walk(self, kinds=None):
        def rec(items, ns):
            for it in items:
                if isinstance(it, Namespace):
                    yield from rec(it.content, ns + [it.name])
                else:
                    yield ns, it
        return rec(self.content, [])

    def classes(self):
        return [it for _, it in self.walk() if isinstance(it, Class)]

    def lexemes(self):
        """-> (lexemes, decl_starts) ; decl_starts = lexeme indices at which a
        top-level declaration begins (plus len(lexemes) for the end)."""
        lex, starts = [], []
        for c in self.content:
            starts.append(len(lex))
            lex += c.lex()
        starts.append(len(lex))
        return lex, starts


# ---------------------------------------------------------------------------
PROFILES = {
    "pybind": dict(ns_depth=3, templates=True, typedefs=True, operators=True, dunder=True,
                   templated_types=True, variables=True, enums=True, fwd=True, includes=True,
                   pair=True, raw_ptr=True, scoped=True, this=True, serialization=True,
                   class_props=True, statics=True, defaults=True, inheritance=True,
                   method_templates=True, float_=True, func_templates=True,
                   ptr_props=True, str_defaults=True, eigen=True, fwd_parent=True),
    # What MatlabWrapper handles without raising on the pinned tree.
    "matlab": dict(ns_depth=2, templates=True, typedefs=True, operators=False, dunder=False,
                   templated_types=False, variables=False, enums=True, fwd=True, includes=True,
                   pair=True, raw_ptr=True, scoped=False, this=True, serialization=False,
                   class_props=True, statics=True, defaults=True, inheritance=True,
                   method_templates=True, float_=False, func_templates=False,
                   ptr_props=True, str_defaults=True, eigen=True, fwd_parent=False),
}


class InterfaceGen:
    def __init__(self, tape, profile="pybind", tag="", max_decls=6, ns_pool=None, force_ns=False):
        self.t = tape
        self.p = dict(PROFILES[profile])
        self.profile = profile
        self.tag = tag                 # appended to every top-level-visible name
        self.max_decls = max_decls
        self.classes = []              # Class objects declared so far (usable as types)
        self.foreign = []              # forward-declared foreign qualified names
        self.used_names = set()
        self.enums_global = []         # (ns, Enum)
        self.ns_pool = ns_pool or NS_NAMES
        self.force_ns = force_ns

    # -- names ----------------------------------------------------------------
    def fresh(self, pool, label, suffix=True):
        for _ in range(50):
            n = self.t.pick(pool, label)
            cand = n + (self.tag if suffix else "")
            if cand not in self.used_names:
                self.used_names.add(cand)
                return cand
        k = len(self.used_names)
        cand = "%s%d%s" % (pool[0], k, self.tag if suffix else "")
        self.used_names.add(cand)
        return cand

    # -- types ----------------------------------------------------------------
    def class_type_names(self):
        return [c.qname for c in self.classes if c.tmpl is None] + self.foreign

    def base_type(self, tparams=(), allow_void=False, for_ret=False):
        """an unqualified type name (no const/&/*), possibly templated"""
        t = self.t
        opts = [("int", 3), ("double", 3), ("bool", 1), ("size_t", 1), ("string", 2)]
        if self.p["eigen"]:
            opts += [("gtsam::Vector", 2), ("gtsam::Matrix", 1), ("gtsam::Point2", 1),
                     ("gtsam::Point3", 1)]
        opts += [("char", 0.3), ("unsigned char", 0.3)]
        if self.p["float_"]:
            opts.append(("float", 0.3))
        cls = self.class_type_names()
        for c in cls:
            opts.append((c, 4.0 / len(cls)))
        for tp in tparams:
            opts.append((tp, 2))
        if allow_void:
            opts.insert(0, ("void", 3))
        name = t.wpick(opts, "type")
        return name

    def is_classlike(self, name, tparams=()):
        return name in self.class_type_names() or name in tparams or name == "This"

    def arg_type(self, tparams=(), cls=None):
        t = self.t
        if self.p["templated_types"] and t.bool(0.12, "templated-arg"):
            inner = self.arg_type(tparams) if t.bool(0.25, "nest") else \
                Ty(self.base_type(tparams))
            if inner.mod in ("&",):
                inner.mod = ""
            outer = t.pick(["std::vector", "std::optional", "gtsam::FastVector"], "tt-name")
            targs = [inner]
            if t.bool(0.2, "tt-2"):
                outer = "std::map"
                targs = [Ty(t.pick(["int", "size_t", "string"], "map-k")), inner]
            return Ty(outer, const=t.bool(0.5, "const"), mod=t.pick(["", "&"], "tt-mod"),
                      targs=targs)
        if cls is not None and self.p["this"] and cls.tmpl is not None and t.bool(0.15, "this"):
            return Ty("This", const=t.bool(0.5, "const"), mod=t.pick(["&", "", "*"], "this-mod"))
        if cls is not None and self.p["scoped"] and tparams and t.bool(0.08, "scoped"):
            return Ty(t.pick(list(tparams), "sc-t") + "::" + t.pick(["Value", "shared_ptr"], "sc-n"),
                      const=t.bool(0.5, "const"), mod=t.pick(["", "&"], "sc-mod"))
        name = self.base_type(tparams)
        if self.is_classlike(name, tparams):
            mods = ["&", "", "*"] + (["@"] if self.p["raw_ptr"] else [])
            mod = t.wpick(list(zip(mods, [4, 2, 2, 1])), "mod")
            const = t.bool(0.6 if mod == "&" else 0.15, "const")
            return Ty(name, const=const, mod=mod)
        if name in ("string",) or name.startswith("gtsam::"):
            mod = t.wpick([("", 3), ("&", 3)], "mod")
            return Ty(name, const=(mod == "&" and t.bool(0.85, "const")) or
                      (mod == "" and t.bool(0.1, "const")), mod=mod)
        return Ty(name, const=t.bool(0.08, "const"), mod="")

    def ret_type(self, tparams=(), cls=None):
        t = self.t
        if self.p["pair"] and t.bool(0.12, "pair"):
            a = self.single_ret(tparams, cls, in_pair=True)
            b = self.single_ret(tparams, cls, in_pair=True)
            return Ret(a, b, std=t.bool(0.3, "std-pair"))
        return Ret(self.single_ret(tparams, cls))

    def single_ret(self, tparams=(), cls=None, in_pair=False):
        t = self.t
        if not in_pair and self.p["templated_types"] and t.bool(0.06, "templated-ret"):
            return Ty("std::vector", targs=[Ty(self.base_type(tparams))])
        if cls is not None and self.p["this"] and cls.tmpl is not None and t.bool(0.15, "this"):
            return Ty("This", mod=t.pick(["", "*"], "this-mod"))
        name = self.base_type(tparams, allow_void=not in_pair)
        if self.is_classlike(name, tparams):
            return Ty(name, mod=t.wpick([("", 3), ("*", 2)], "ret-mod"))
        return Ty(name)

    def default_for(self, ty):
        """a default expression valid for DEFAULT_ARG and free of comment openers"""
        t = self.t
        n = ty.name
        if ty.targs is not None:
            return t.pick(["{}", "{1, 2, 3}", "%s<%s>()" % (n, " ".join(ty.targs[0].lex()))
                           if len(ty.targs) == 1 else "{}"], "dflt-tt")
        if n in ("int", "size_t", "char", "unsigned char"):
            return t.pick(["0", "1", "123", "42"], "dflt-int") if n != "int" else \
                t.pick(["0", "1", "-1", "123"], "dflt-int")
        if n in ("double", "float"):
            return t.pick(["0.0", "1.5", "-9.81", "1e-9", "0.5"], "dflt-dbl")
        if n == "bool":
            return t.pick(["false", "true"], "dflt-bool")
        if n == "string":
            if self.p["str_defaults"]:
                return t.pick(['""', '"hello"', '"a, b"', '"x;y"', '"(unbalanced"', '"it\'s"',
                               '"café"', '"http://x.org/a"', '"/* not a comment */"'], "dflt-str")
            return '""'
        if n.startswith("gtsam::") and n[7:] in ("Vector", "Matrix", "Point2", "Point3"):
            return t.pick(["%s()" % n, "%s(1, 2)" % n if n.endswith("Point2") else "%s()" % n],
                          "dflt-eig")
        if ty.mod in ("*", "@"):
            return t.pick(["nullptr", "0"], "dflt-ptr")
        return t.pick(["%s()" % n, "%s(1, 2.0)" % n, "%s::Default(\"k\", {1, 2})" % n], "dflt-cls")

    def arg_list(self, tparams=(), cls=None, max_args=4, min_args=0, with_defaults=True):
        t = self.t
        n = min_args + t.small(max_args - min_args, "nargs", p=0.6)
        pool = list(ARG_NAMES)
        args = []
        for i in range(n):
            nm = pool.pop(t.choose(len(pool), "argname"))
            args.append(Arg(self.arg_type(tparams, cls), nm))
        if with_defaults and self.p["defaults"] and n and t.bool(0.25, "defaults"):
            k = 1 + t.choose(n, "ndefaults")
            for a in args[n - k:]:
                if a.ty.mod in ("&",) and not a.ty.const:
                    a.ty.const = True
                if a.ty.name in tparams or a.ty.name == "This" or "::" in a.ty.name and \
                        a.ty.name.split("::")[0] in tparams:
                    # defaults for template parameters are type dependent; keep neutral
                    a.default = a.ty.name.replace("This", "This") + "()"
                else:
                    a.default = self.default_for(a.ty)
        return args

    # -- members ----------------------------------------------------------------
    def gen_template(self, level, avoid=()):
        """-> Tmpl with instantiation lists (or without: needs typedef)"""
        t = self.t
        nparams = 1 + (1 if t.bool(0.2, "tparams2") else 0)
        pool = [p for p in TPARAMS if p not in avoid]
        names = t.shuffle(pool, "tparam-names")[:nparams]
        params = []
        for n in names:
            k = 1 + t.small(2, "ninst", p=0.5)
            insts = []
            seen = set()
            for _ in range(k):
                ty = self.inst_type()
                key = repr(ty)
                if key in seen:
                    continue
                seen.add(key)
                insts.append(ty)
            params.append((n, insts))
        return Tmpl(params)

    def inst_type(self):
        t = self.t
        opts = [("double", 3), ("int", 1), ("string", 2), ("size_t", 1)]
        if self.p["eigen"]:
            opts += [("gtsam::Point2", 2), ("gtsam::Point3", 1), ("gtsam::Matrix", 1),
                     ("gtsam::Vector", 1)]
        cls = self.class_type_names()
        for c in cls:
            opts.append((c, 3.0 / len(cls)))
        name = t.wpick(opts, "inst")
        if self.p["templated_types"] and t.bool(0.1, "inst-templ"):
            return Ty("std::vector", targs=[Ty(name)])
        return Ty(name)

    def gen_method(self, cls, tparams, names_used):
        t = self.t
        name = t.pick(METHOD_NAMES, "mname")
        tm = None
        tps = tuple(tparams)
        if self.p["method_templates"] and t.bool(0.1, "mtempl"):
            tm = self.gen_template("method", avoid=tparams)
            tps = tps + tuple(n for n, _ in tm.params)
        ret = self.ret_type(tps, cls)
        if tm and self.profile == "matlab" and ret.t2 is not None:
            # MatlabWrapper raises AttributeError for a templated method returning a pair
            # (wrap_collector_function_return rebinds `method` to a str); out of profile.
            ret = Ret(ret.t1)
        args = self.arg_list(tps, cls)
        if tm:
            # make sure every method-level parameter is used at least once
            if not any(a.ty.name in [n for n, _ in tm.params] for a in args):
                p0 = tm.params[0][0]
                an = [n for n in ARG_NAMES if n not in [a.name for a in args]][0]
                # insert before any defaulted args
                idx = 0
                args.insert(idx, Arg(Ty(p0, const=True, mod="&"), an))
        return Func("method", name, ret, args, tmpl=tm, const=t.bool(0.5, "mconst"))

    def gen_class(self, ns, allow_template=True):
        t = self.t
        c = Class(self.fresh(CLASS_STEMS, "cname"), ns)
        tparams = ()
        if allow_template and self.p["templates"] and t.bool(0.2, "ctempl"):
            c.tmpl = self.gen_template("class")
            tparams = tuple(n for n, _ in c.tmpl.params)
        if self.p["inheritance"] and t.bool(0.3, "virtual"):
            c.virtual = True
            bases = [k for k in self.classes if k.virtual and k.tmpl is None]
            if bases and t.bool(0.6, "derive"):
                c.parent = t.pick(bases, "base").qname
        nctor = t.small(3, "nctor", p=0.5)
        sigs = set()
        for _ in range(nctor):
            args = self.arg_list(tparams, c, max_args=3)
            key = tuple(repr(a.ty) for a in args)
            if key in sigs:
                continue
            sigs.add(key)
            c.members.append(Func("ctor", c.name, None, args))
        nm = t.small(5, "nmeth", p=0.65)
        for _ in range(nm):
            c.members.append(self.gen_method(c, tparams, None))
        if self.p["statics"]:
            for _ in range(t.small(2, "nstatic", p=0.35)):
                c.members.append(Func("static", t.pick(STATIC_NAMES, "sname"),
                                      self.ret_type(tparams, c),
                                      self.arg_list(tparams, c, max_args=3)))
        if self.p["class_props"]:
            used = set()
            for _ in range(t.small(2, "nprop", p=0.35)):
                pn = t.pick(["seed", "name", "weight", "count", "origin", "child"], "pname")
                if pn in used:
                    continue
                used.add(pn)
                pt = self.base_type(tparams)
                mod = ""
                if self.is_classlike(pt, tparams) and self.p["ptr_props"] and t.bool(0.3, "pp"):
                    mod = "*"
                c.members.append(Var(Ty(pt, const=t.bool(0.15, "pconst"), mod=mod), pn))
        if self.p["enums"] and t.bool(0.15, "cenum"):
            c.members.append(self.gen_enum(local=True))
        if self.p["operators"] and t.bool(0.15, "ops"):
            for op in t.sub(["+", "-", "*", "==", "[]", "()"], 0.35, "op"):
                selfty = "This" if c.tmpl is not None else c.qname
                if op in ("[]", "()"):
                    c.members.append(Func("operator", "operator", Ret(Ty("double")),
                                          [Arg(Ty("size_t"), "i")], const=True, op=op))
                elif op == "-" and t.bool(0.5, "unary"):
                    c.members.append(Func("operator", "operator", Ret(Ty(selfty)), [],
                                          const=True, op=op))
                else:
                    c.members.append(Func("operator", "operator", Ret(Ty(selfty)),
                                          [Arg(Ty(selfty, const=True, mod="&"), "other")],
                                          const=True, op=op))
        if self.p["dunder"] and t.bool(0.08, "dunder"):
            k = t.pick(["len", "iter", "contains"], "dname")
            args = [Arg(Ty("size_t"), "key")] if k == "contains" else []
            c.members.append(Func("dunder", k, None, args))
        if self.p["serialization"] and t.bool(0.1, "ser"):
            c.members.append(Func("method", t.pick(["serialize", "serializable"], "sername"),
                                  Ret(Ty("void")), [], const=True))
        if t.bool(0.3, "shuffle-members"):
            c.members = t.shuffle(c.members, "member-order")
        self.classes.append(c)
        return c

    def gen_enum(self, local=False):
        t = self.t
        name = t.pick(ENUM_NAMES, "ename") if local else self.fresh(ENUM_NAMES, "ename")
        k = 1 + t.small(4, "nenum", p=0.7)
        vals = t.shuffle(ENUMERATORS, "enumerators")[:k]
        return Enum(name, vals, style=t.wpick([("enum", 3), ("enum class", 1), ("enum struct", 0.3)],
                                              "estyle"))

    def gen_function(self, ns):
        t = self.t
        tm = None
        tps = ()
        if self.p["func_templates"] and t.bool(0.12, "ftempl"):
            tm = self.gen_template("func")
            tps = tuple(n for n, _ in tm.params)
        name = t.pick(FUNC_NAMES, "fname") + self.tag
        args = self.arg_list(tps, None)
        if tm and not any(a.ty.name in tps for a in args):
            args.insert(0, Arg(Ty(tps[0], const=True, mod="&"),
                               [n for n in ARG_NAMES if n not in [a.name for a in args]][0]))
        return Func("global", name, self.ret_type(tps, None), args, tmpl=tm)

    def gen_decl(self, ns, depth):
        t = self.t
        opts = [("class", 5), ("func", 3)]
        if self.p["enums"]:
            opts.append(("enum", 1))
        if self.p["includes"]:
            opts.append(("include", 1))
        if self.p["fwd"]:
            opts.append(("fwd", 1))
        if self.p["variables"]:
            opts.append(("var", 1))
        if self.p["typedefs"] and self.p["templates"]:
            opts.append(("typedef", 1))
        if depth < self.p["ns_depth"]:
            opts.append(("namespace", 2 if self.ns_pool is NS_NAMES else 6))
        kind = t.wpick(opts, "decl-kind")
        if kind == "class":
            return [self.gen_class(ns)]
        if kind == "func":
            f = self.gen_function(ns)
            out = [f]
            if t.bool(0.25, "overload"):
                g = Func("global", f.name, self.ret_type((), None),
                         self.arg_list((), None, min_args=len(f.args) + 1 if len(f.args) < 4 else 0),
                         tmpl=None)
                out.append(g)
            return out
        if kind == "enum":
            return [self.gen_enum()]
        if kind == "include":
            return [Include(t.pick(HEADERS, "header"))]
        if kind == "fwd":
            q = t.pick(["gtsam", "other", "ext"], "fwd-ns") + "::" + self.fresh(
                ["Ext", "Foreign", "Base", "Thing"], "fwd-name")
            self.foreign.append(q)
            v = t.bool(0.3, "fwd-virtual")
            parent = None
            if self.p["fwd_parent"] and t.bool(0.3, "fwd-parent"):
                parent = "gtsam::NonlinearFactor"
            return [Fwd(q, virtual=v, parent=parent)]
        if kind == "var":
            ty = t.pick(["double", "int", "string", "bool"], "vtype")
            d = self.default_for(Ty(ty)) if t.bool(0.7, "vdefault") else None
            return [Var(Ty(ty, const=t.bool(0.6, "vconst")), self.fresh(VAR_NAMES, "vname"), d)]
        if kind == "typedef":
            # template without instantiation list + typedef naming one instantiation
            c = Class(self.fresh(CLASS_STEMS, "cname"), ns)
            pn = t.pick(TPARAMS, "td-param")
            c.tmpl = Tmpl([(pn, None)])
            c.members.append(Func("ctor", c.name, None, []))
            c.members.append(Func("method", t.pick(METHOD_NAMES, "mname"),
                                  Ret(Ty(t.pick([pn, "void", "double"], "td-ret"))),
                                  [Arg(Ty(pn, const=True, mod="&"), "value")], const=True))
            inst = self.inst_type()
            new = c.name.replace(self.tag, "") + "Of" + \
                inst.name.split("::")[-1].capitalize() + self.tag
            self.used_names.add(new)
            td = Typedef(Ty("::".join(ns + [c.name]), targs=[inst]), new)
            return [c, td]
        if kind == "namespace":
            n = Namespace(t.pick(self.ns_pool, "nsname"), ns)
            k = 1 + t.small(3, "ns-ndecl", p=0.6)
            for _ in range(k):
                n.content += self.gen_decl(ns + [n.name], depth + 1)
            return [n]
        raise AssertionError(kind)

    def module(self):
        m = Module()
        if self.force_ns:
            # a package that every file of a shared toolbox directory has (cf. +gtsam)
            ns = Namespace(self.ns_pool[0], [])
            ns.content.append(self.gen_class([ns.name]))
            if self.t.bool(0.5, "force-ns-more"):
                ns.content += self.gen_decl([ns.name], 1)
            m.content.append(ns)
        n = 1 + self.t.small(self.max_decls - 1, "ndecl", p=0.8)
        for _ in range(n):
            m.content += self.gen_decl([], 0)
        return m


# ---------------------------------------------------------------------------
def render(lexemes, tape, style=None):
    """lexemes -> text.  Separators between lexemes are tape-chosen whitespace and
    comments (never inside a lexeme).  style 'plain' = single spaces/newlines."""
    out = []
    plain = style == "plain" or (style is None and not tape.bool(0.5, "fancy-layout"))
    depth = 0
    for i, lx in enumerate(lexemes):
        if i:
            prev = lexemes[i - 1]
            if prev in (";", "{", "}") or prev.startswith("#include"):
                sep = "\n" + "  " * max(depth - (1 if lx == "}" else 0), 0)
            else:
                sep = " "
            if not plain:
                k = tape.weighted([12, 2, 1, 1, 1], "sep")
                if k == 1:
                    sep = "\n" + " " * tape.choose(5, "indent")
                elif k == 2:
                    # block comments in every star pattern people write: /** doc **/, banners, /*/ ... */
                    shape = tape.pick(["/* %s */", "/* %s */", "/** %s **/", "/* %s **/", "/*** %s ***/", "/***/", "/**/",
                                       "/*****/", "/*/ %s */", "/* %s\n * continued\n **/"], "comment-shape")
                    word = tape.pick(COMMENT_WORDS, "cw").replace("*/", "* /")
                    sep = " " + (shape % word if "%s" in shape else shape) + " "
                elif k == 3:
                    sep = " // %s\n" % tape.pick(COMMENT_WORDS, "cw")
                elif k == 4:
                    sep = "\t" if tape.bool(0.5, "tab") else "  \n\n"
            out.append(sep)
        if lx == "{":
            depth += 1
        elif lx == "}":
            depth -= 1
        out.append(lx)
    return "".join(out)


def generate(tape, profile="pybind", tag="", max_decls=6, ns_pool=None, force_ns=False):
    """-> (Module model, lexemes, decl_starts)"""
    g = InterfaceGen(tape, profile, tag, max_decls, ns_pool, force_ns)
    m = g.module()
    lex, starts = m.lexemes()
    return m, lex, starts
