"""C11 program generator: one model -> (a) interface text in the MATLAB-safe, *compilable*
sub-dialect, (b) an instrumented C++ library header that declares every entity exactly as
the interface says and records every call.

The library is derived from the model, never from wrap's parse tree.

Library conventions (see emit_library):
  * every wrapped class derives from lib::Tracked (virtual destructor, a serial number per
    object incl. copies, a global live-set keyed by address);
  * every entity appends lib::Event{entity, overload, this-serial, encoded args, encoded ret};
  * return values are derived from a global counter so they are never equal by accident;
  * lib::throw_at(n): the n-th entity call from now throws std::runtime_error.
"""

PRIMS = ["int", "double", "bool", "size_t", "string"]
EIGS = ["Vector", "Matrix", "Point2", "Point3"]


class PType:
    """kind: prim | eig | class | enum ; mode for classes: val | cref | sptr | rptr"""

    def __init__(self, kind, name, mode="val"):
        self.kind, self.name, self.mode = kind, name, mode

    def iface(self):
        if self.kind == "tparam":
            return {"val": "T", "cref": "const T &"}[self.mode]
        if self.kind == "this":
            return {"val": "This", "cref": "const This &", "sptr": "This *"}[self.mode]
        n = self.name if self.kind != "eig" else "gtsam::" + self.name
        if self.kind == "class":
            return {"val": n, "cref": "const %s &" % n, "ref": n + " &", "sptr": n + " *", "rptr": n + " @",
                    "cref_peer": "const %s &" % n, "ref_peer": n + " &"}[self.mode]
        if self.kind == "eig" and self.mode == "cref":
            return "const %s &" % n
        return n

    def cpp(self):
        """spelling in the library declaration"""
        if self.kind == "tparam":
            return {"val": "T", "cref": "const T&"}[self.mode]
        if self.kind == "this":      # self.name = template name; inside the template body
            return {"val": "%s<T>", "cref": "const %s<T>&", "sptr": "std::shared_ptr<%s<T>>"}[self.mode] % self.name
        n = self.name if self.kind != "eig" else "gtsam::" + self.name
        if self.kind == "prim" and self.name == "string":
            n = "std::string"
        if self.kind == "class":
            return {"val": n, "cref": "const %s&" % n, "ref": n + "&", "sptr": "std::shared_ptr<%s>" % n,
                    "rptr": n + "*", "cref_peer": "const %s&" % n, "ref_peer": n + "&"}[self.mode]
        if self.kind == "eig" and self.mode == "cref":
            return "const %s&" % n
        return n

    def key(self):
        return (self.kind, self.name, self.mode)


class PArg:
    def __init__(self, ty, name, default=None):
        self.ty, self.name, self.default = ty, name, default     # default: (text, python value)


class PFunc:
    def __init__(self, kind, name, ret, args, const=False):
        self.kind, self.name, self.ret, self.args, self.const = kind, name, ret, args, const
        self.entity = None      # unique entity name, assigned by the program
        self.overload = 0


class PClass:
    def __init__(self, name, ns):
        self.name, self.ns = name, ns
        self.virtual = False
        self.parent = None
        self.ctors, self.methods, self.statics, self.props, self.enums = [], [], [], [], []

    @property
    def qname(self):
        return "::".join(self.ns + [self.name])

    @property
    def mname(self):       # MATLAB class name
        return ".".join(self.ns + [self.name])


class PTemplate:
    """template<T = {insts}> class name { generic members }; instantiated views are PClass objects"""

    def __init__(self, name, ns, insts):
        self.name, self.ns, self.insts = name, ns, insts
        self.ctors, self.methods, self.statics, self.props = [], [], [], []
        self.views = []

    @property
    def qname(self):
        return "::".join(self.ns + [self.name])


def inst_suffix(ty):
    """what gtwrap's instantiate_name appends: the type's own name (no namespaces), first letter upper-cased"""
    n = ty.name.split("::")[-1]
    return n[0].upper() + n[1:]


class PEnum:
    def __init__(self, name, ns, values, owner=None):
        self.name, self.ns, self.values, self.owner = name, ns, values, owner

    @property
    def qname(self):
        return "::".join(self.ns + ([self.owner.name] if self.owner else []) + [self.name])

    @property
    def mname(self):
        return ".".join(self.ns + ([self.owner.name] if self.owner else []) + [self.name])


class Program:
    def __init__(self):
        self.classes, self.functions, self.enums = [], [], []   # functions: (ns, PFunc)
        self.templates = []
        self.module = "prog"

    def class_by_q(self, q):
        for c in self.classes:
            if c.qname == q:
                return c
        return None

    def ancestors(self, c):
        out = []
        while c.parent:
            c = self.class_by_q(c.parent)
            out.append(c)
        return out

    def isa(self, c, q):
        return c.qname == q or any(a.qname == q for a in self.ancestors(c))


CLASSN = ["Alpha", "Beta", "Gamma", "Delta", "Kappa", "Sigma", "Omega", "Pose", "Rot", "Cal"]
METHN = ["get", "value", "dim", "apply", "compose", "update", "norm", "scale", "at", "mix"]
STATN = ["Create", "Identity", "Make", "FromValue"]
FUNCN = ["compute", "solve", "helper", "transform", "combine"]
ARGN = ["a", "b", "c", "x", "y", "t", "key", "v", "other", "p", "q", "s", "n"]
NSN = ["gtsam", "ns1", "geo"]
PROPN = ["seed", "weight", "label", "count", "origin"]


class ProgGen:
    def __init__(self, tape, features=None):
        self.t = tape
        self.p = Program()
        self.f = features or {}
        self.names = set()

    def fresh(self, pool):
        for _ in range(30):
            n = self.t.pick(pool, "name")
            if n not in self.names:
                self.names.add(n)
                return n
        n = "%s%d" % (pool[0], len(self.names))
        self.names.add(n)
        return n

    def usable_enums(self, cls):
        """MatlabWrapper recognises an enum type only inside the class that owns it, or (a namespace-level
        enum) inside classes of the same namespace; never in free functions."""
        if cls is None or not self.f.get("enums", True):
            return []
        return [e for e in self.p.enums if e.owner is cls or (e.owner is None and e.ns == cls.ns)]

    def arg_type(self, allow_class=True, cls=None):
        t = self.t
        opts = [("int", 3), ("double", 3), ("bool", 1), ("size_t", 1), ("string", 2), ("Vector", 2),
                ("Matrix", 1), ("Point2", 0.7), ("Point3", 0.7)]
        if self.f.get("char_types", True):
            opts.append(("char", 0.6))
        klasses = [k for k in self.p.classes if getattr(k, "tpl", None) is None]   # instantiations are not named as types
        if allow_class and klasses:
            opts.append(("<class>", 5))
        enums = self.usable_enums(cls)
        if enums:
            opts.append(("<enum>", 1.5))
        k = t.wpick(opts, "arg-type")
        if k == "<class>":
            c = t.pick(klasses, "arg-class")
            mode = t.wpick([("cref", 4), ("sptr", 2), ("val", 1), ("rptr", 1), ("ref", 1)], "arg-mode")
            return PType("class", c.qname, mode)
        if k == "<enum>":
            e = t.pick(enums, "arg-enum")
            return PType("enum", e.qname, "val")
        if k in EIGS:
            return PType("eig", k, t.wpick([("val", 2), ("cref", 2)], "eig-mode"))
        return PType("prim", k)

    def ret_type(self, allow_void=True, cls=None):
        t = self.t
        opts = [("int", 3), ("double", 3), ("bool", 1), ("size_t", 1), ("string", 2), ("Vector", 2),
                ("Matrix", 1), ("Point2", 0.5), ("Point3", 0.5)]
        if allow_void:
            opts.insert(0, ("void", 4))
        if self.f.get("char_types", True):
            opts.append(("char", 0.5))
        plain = [k for k in self.p.classes if getattr(k, "tpl", None) is None]
        if plain:
            opts.append(("<class>", 5))
        enums = self.usable_enums(cls)
        if enums:
            opts.append(("<enum>", 1.5))
        k = t.wpick(opts, "ret-type")
        if k == "void":
            return PType("prim", "void")
        if k == "<class>":
            c = t.pick(plain, "ret-class")
            return PType("class", c.qname, t.wpick([("val", 2), ("sptr", 3)], "ret-mode"))
        if k == "<enum>":
            return PType("enum", t.pick(enums, "ret-enum").qname)
        if k in EIGS:
            return PType("eig", k)
        return PType("prim", k)

    def gen_ret(self, allow_void=True, cls=None):
        """-> PType or ('pair', PType, PType)"""
        if self.f.get("pairs", True) and self.t.bool(0.1, "pair-ret"):
            return ("pair", self.ret_type(False), self.ret_type(False))
        return self.ret_type(allow_void, cls)

    def default_for(self, ty):
        t = self.t
        if ty.kind != "prim":
            return None
        if ty.name == "int":
            v = t.pick([0, 1, 7, -3, 123], "d-int")
            return (str(v), v)
        if ty.name == "size_t":
            v = t.pick([0, 2, 42], "d-sz")
            return (str(v), v)
        if ty.name == "double":
            v = t.pick([0.0, 1.5, -2.25, 1e-3], "d-dbl")
            return (repr(v), v)
        if ty.name == "bool":
            v = t.bool(0.5, "d-bool")
            return ("true" if v else "false", v)
        if ty.name == "string":
            v = t.pick(["", "hello", "a b"], "d-str")
            return ('"%s"' % v, v)
        return None

    def args(self, maxn=3, allow_class=True, cls=None):
        t = self.t
        n = t.small(maxn, "nargs", p=0.6)
        pool = list(ARGN)
        out = []
        for _ in range(n):
            out.append(PArg(self.arg_type(allow_class, cls), pool.pop(t.choose(len(pool), "argname"))))
        if n and self.f.get("defaults", True) and t.bool(0.3, "defaults"):
            k = 1 + t.choose(n, "ndefaults")
            for a in reversed(out[n - k:]):
                d = self.default_for(a.ty)
                if d is None:
                    break
                a.default = d
            # defaults must be trailing
            seen_nondefault = False
            for a in reversed(out):
                if a.default is None:
                    seen_nondefault = True
                elif seen_nondefault:
                    a.default = None
        return out

    def gen_class(self, ns):
        t = self.t
        c = PClass(self.fresh(CLASSN), ns)
        if self.f.get("inheritance", True) and t.bool(0.45, "virtual"):
            c.virtual = True
            bases = [k for k in self.p.classes if k.virtual and len(self.p.ancestors(k)) < 2
                     and getattr(k, "tpl", None) is None]
            if bases and t.bool(0.65, "derive"):
                c.parent = t.pick(bases, "base").qname
        elif self.f.get("inheritance", True) and self.f.get("plain_derive", True) and t.bool(0.3, "plain-derive"):
            # a class that has a parent without being declared `virtual` (parent virtual or not)
            bases = [k for k in self.p.classes if len(self.p.ancestors(k)) < 2 and getattr(k, "tpl", None) is None]
            if bases:
                c.parent = t.pick(bases, "plain-base").qname
        self.p.classes.append(c)        # a class may refer to itself in its own signatures
        if self.f.get("enums", True) and (len(ns) < 2 or self.f.get("class_enum_nested")) and t.bool(0.15, "class-enum"):
            e = PEnum(t.pick(["Kind", "Mode"], "ename"), ns, t.shuffle(["Red", "Green", "Blue", "Dog"], "evals")[:3], owner=c)
            c.enums.append(e)
            self.p.enums.append(e)
        sigs = set()
        for _ in range(t.weighted([1, 4, 3, 1], "nctor")):
            a = self.args(3, cls=c)
            if len(a) == 1 and a[0].ty.kind == "class" and a[0].ty.name == c.qname and \
                    a[0].ty.mode in ("val", "cref", "ref"):
                continue        # that would be the copy constructor the library already has
            key = tuple((x.ty.kind, x.ty.name if x.ty.kind != "prim" else _mclass(x.ty)) for x in a)
            if key in sigs:
                continue
            sigs.add(key)
            c.ctors.append(PFunc("ctor", c.name, None, a))
        seen = set()

        def fresh_sig(f):
            # C++ cannot overload on the return type (nor, for the MATLAB guards' sake, on constness alone)
            key = (f.name, tuple(a.ty.cpp() for a in f.args))
            if key in seen:
                return False
            seen.add(key)
            return True
        for _ in range(t.small(4, "nmeth", p=0.7)):
            f = PFunc("method", t.pick(METHN, "mname"), self.gen_ret(cls=c), self.args(3, cls=c),
                      const=t.bool(0.5, "const"))
            if fresh_sig(f):
                c.methods.append(f)
        if self.f.get("ref_returns", True) and t.bool(0.2, "ref-return"):
            self.add_ref_return(c)
        for _ in range(t.small(2, "nstatic", p=0.4)):
            f = PFunc("static", t.pick(STATN, "sname"),
                      self.gen_ret(allow_void=bool(self.f.get("static_void", True)), cls=c), self.args(2, cls=c))
            if fresh_sig(f):
                c.statics.append(f)
        if self.f.get("props", True):
            for _ in range(t.small(2, "nprop", p=0.4)):
                # property names are unique per program: MATLAB forbids redefining an inherited property
                pn = self.fresh(PROPN)
                popts = [(PType("prim", "int"), 2), (PType("prim", "double"), 2), (PType("prim", "string"), 1),
                         (PType("eig", "Vector"), 1), (PType("prim", "bool"), 1)]
                others = [k for k in self.p.classes if k is not c and k.ctors and not k.parent
                          and getattr(k, "tpl", None) is None]
                if others and self.f.get("class_props", True):
                    popts.append((PType("class", t.pick(others, "prop-class").qname, "val"), 1.5))
                pt = t.wpick(popts, "ptype")
                c.props.append((pn, pt))
        return c

    def add_ref_return(self, c, tag=""):
        """a method returning the object itself by (const) reference, as its own class or as an ancestor"""
        t = self.t
        targets = [c] + [a for a in self.p.ancestors(c) if getattr(a, "tpl", None) is None]
        tgt = t.pick(targets, "ref-target")
        mode = t.pick(["cref", "cref", "ref"], "ref-mode")
        if tgt is c and t.bool(0.5, "ref-to-peer"):
            name = "peer" + ("Ref" if mode == "ref" else "") + tag
            if not any(m.name == name for m in c.methods):
                c.methods.append(PFunc("method", name, PType("class", c.qname, mode + "_peer"),
                                       self.args(1, allow_class=False), const=(mode == "cref")))
            return
        name = ("self" if tgt is c else "as" + tgt.name) + ("Ref" if mode == "ref" else "") + tag
        if any(m.name == name for m in c.methods):
            return
        c.methods.append(PFunc("method", name, PType("class", tgt.qname, mode),
                               self.args(1, allow_class=False), const=(mode == "cref" and t.bool(0.7, "ref-const"))))

    def program(self):
        t = self.t
        p = self.p
        nunits = 2 + t.small(4, "nunits", p=0.8)
        cur_ns = []
        for _ in range(nunits):
            ns = [t.pick(NSN, "ns")] if t.bool(0.4, "in-ns") else []
            if ns and t.bool(0.25, "nested-ns"):
                ns = ns + [t.pick(["inner", "detail"], "ns2")]
            k = t.wpick([("class", 6), ("func", 3), ("enum", 1)], "unit")
            if k == "class" or not p.classes:
                self.gen_class(ns)
            elif k == "func":
                name = self.fresh(FUNCN)
                f = PFunc("func", name, self.gen_ret(), self.args(3))
                p.functions.append((ns, f))
                if t.bool(0.3, "func-overload"):
                    g = PFunc("func", name, self.gen_ret(), self.args(3))
                    if _guard_sig(g) != _guard_sig(f) and \
                            tuple(a.ty.cpp() for a in g.args) != tuple(a.ty.cpp() for a in f.args):
                        p.functions.append((ns, g))
            elif self.f.get("enums", True):
                ename = self.fresh(["Color", "Status", "Level"])
                p.enums.append(PEnum(ename, ns, [ename + x for x in
                                                 t.shuffle(["Low", "Mid", "High", "Off"], "evals")[:2 + t.choose(2, "nvals")]]))
        for feat in self.f.get("force", ()):
            getattr(self, "force_" + feat)()
        if self.f.get("shuffle_functions", True):
            # overloads of a free function need not be declared next to each other
            p.functions[:] = t.shuffle(p.functions, "function-order")
        _dedupe_signatures(p)
        _assign_entities(p)
        if self.f.get("untidy_layout", True):
            nunits = len(p.enums) + len(p.classes) + len(p.templates) + len(p.functions)
            p.layout = {"reopen": t.bool(0.5, "reopen-namespaces"),
                        "unit_order": t.shuffle(list(range(nunits)), "unit-order") if t.bool(0.5, "shuffle-units") else None}
        return p

    # -- forced features: guarantee that a program exercises a construct (swarm by program index) ----
    def force_chain(self):
        """a three-level virtual inheritance chain with methods at every level"""
        t = self.t
        ns = [t.pick(NSN, "ns")] if t.bool(0.5, "chain-ns") else []
        prev = None
        made = []
        for lvl in range(3):
            c = PClass(self.fresh(["Base", "Middle", "Leaf", "Root", "Node", "Tip"]), ns if lvl != 1 else [])
            c.virtual = True
            c.parent = prev.qname if prev else None
            self.p.classes.append(c)
            c.ctors.append(PFunc("ctor", c.name, None, self.args(2, allow_class=False)))
            if t.bool(0.5, "chain-ctor2"):
                c.ctors.append(PFunc("ctor", c.name, None, [PArg(PType("prim", "string"), "tag")]))
            c.methods.append(PFunc("method", "level%d" % lvl, self.ret_type(False, c), self.args(2, cls=c),
                                   const=True))
            c.methods.append(PFunc("method", "shared", PType("prim", "int"), [], const=True))
            if self.f.get("ref_returns", True):
                self.add_ref_return(c, tag=str(lvl))
            prev = c
            made.append(c)
        root = made[0]
        self.p.functions.append((ns, PFunc("func", self.fresh(["useRoot", "takeBase"]), PType("prim", "int"),
                                           [PArg(PType("class", root.qname, "cref"), "r"),
                                            PArg(PType("class", made[2].qname, "sptr"), "leaf")])))
        self.p.functions.append(([], PFunc("func", self.fresh(["makeRoot", "giveBase"]),
                                           PType("class", root.qname, "sptr"), [])))

    def force_plainchain(self):
        """classes that have a parent without being `virtual`: derived from a virtual or a plain base, with a
        method-less class declared between base and derived, two constructors, and objects of the derived
        classes coming back from C++ (static factory, free function)"""
        t = self.t
        ns = [t.pick(NSN, "ns")] if t.bool(0.5, "pchain-ns") else []
        base = PClass(self.fresh(["Shape", "Figure", "Item"]), ns)
        base.virtual = t.bool(0.5, "pchain-base-virtual")
        self.p.classes.append(base)
        base.ctors.append(PFunc("ctor", base.name, None, self.args(1, allow_class=False)))
        base.methods.append(PFunc("method", "area", PType("prim", "double"), self.args(1, allow_class=False), const=True))
        filler = PClass(self.fresh(["Tag", "Mark", "Stamp"]), [])
        self.p.classes.append(filler)
        filler.ctors.append(PFunc("ctor", filler.name, None, []))
        prev = base
        for lvl in range(1 + t.choose(2, "pchain-depth")):
            d = PClass(self.fresh(["Circle", "Square", "Blob", "Disc"]), ns if t.bool(0.7, "pchain-same-ns") else [])
            d.virtual = False if lvl == 0 else t.bool(0.3, "pchain-virtual-leaf")
            d.parent = prev.qname
            self.p.classes.append(d)
            d.ctors.append(PFunc("ctor", d.name, None, self.args(2, allow_class=False)))
            if t.bool(0.5, "pchain-ctor2"):
                d.ctors.append(PFunc("ctor", d.name, None, [PArg(PType("prim", "string"), "tag")]))
            d.methods.append(PFunc("method", "radius%d" % lvl, PType("prim", "double"), [], const=True))
            if self.f.get("ref_returns", True):
                self.add_ref_return(d, tag=str(lvl))
            d.statics.append(PFunc("static", "Unit", PType("class", d.qname, t.pick(["sptr", "val"], "pchain-ret")),
                                   [PArg(PType("prim", "int"), "n")]))
            self.p.functions.append((ns, PFunc("func", self.fresh(["makeDisc", "giveBlob", "newSquare"]),
                                               PType("class", d.qname, "sptr"), [])))
            self.p.functions.append((ns, PFunc("func", self.fresh(["measure", "weigh", "probe"]), PType("prim", "double"),
                                               [PArg(PType("class", base.qname, "cref"), "b"),
                                                PArg(PType("class", d.qname, "sptr"), "d")])))
            prev = d

    def force_overloads(self):
        """overload groups everywhere an id is spent per overload: static methods, methods, constructors and
        free functions with two or three overloads told apart by arity or argument class, plus trailing
        defaults (which expand into further ids)"""
        t = self.t
        ns = [t.pick(NSN, "ns")] if t.bool(0.5, "ov-ns") else []
        c = PClass(self.fresh(["Gauge", "Meter", "Probe"]), ns)
        self.p.classes.append(c)
        I, D, S = PType("prim", "int"), PType("prim", "double"), PType("prim", "string")
        c.ctors.append(PFunc("ctor", c.name, None, []))
        c.ctors.append(PFunc("ctor", c.name, None, [PArg(S, "label")]))
        c.ctors.append(PFunc("ctor", c.name, None, [PArg(D, "lo"), PArg(D, "hi", ("2.5", 2.5))]))
        rets = [I, D, S, PType("class", c.qname, "sptr"), PType("class", c.qname, "val")]
        sigs = [[], [PArg(S, "s")], [PArg(D, "x"), PArg(S, "s")], [PArg(D, "x"), PArg(D, "y"), PArg(S, "s")],
                [PArg(D, "x"), PArg(D, "y", ("0.5", 0.5)), PArg(D, "z", ("1.5", 1.5))]]
        for kind, name, dest in (("static", "Create", c.statics), ("static", "Scale", c.statics),
                                 ("method", "read", c.methods)):
            for sg in t.shuffle(list(range(len(sigs))), "ov-sigs")[:2 + t.choose(2, "ov-n")]:
                args = [PArg(a.ty, a.name, a.default) for a in sigs[sg]]
                ret = t.pick(rets if name != "Scale" else rets[:3], "ov-ret")
                dest.append(PFunc(kind, name, ret, args, const=(kind == "method" and t.bool(0.5, "ov-const"))))
        # overloads that MATLAB can tell apart by shape only: a column (Vector) or any double array (Matrix),
        # in this order, for a constructor, a static method, a method and a free function
        V, M = PType("eig", "Vector"), PType("eig", "Matrix")
        vm = t.pick(["cref", "val"], "ov-vm-mode")
        for ty, nm in ((V, "v"), (M, "m")):
            aty = PType("eig", ty.name, vm) if vm == "cref" else ty
            c.ctors.append(PFunc("ctor", c.name, None, [PArg(aty, nm), PArg(I, "tag")]))
            c.statics.append(PFunc("static", "FromArray", I, [PArg(aty, nm)]))
            c.methods.append(PFunc("method", "absorb", I, [PArg(aty, nm)]))
            self.p.functions.append((ns, PFunc("func", "shapeOf" + c.name, I, [PArg(aty, nm)])))
        if self.f.get("static_void", True):
            c.statics.append(PFunc("static", "Reset", PType("prim", "void"), [PArg(I, "n", ("3", 3))]))
            c.statics.append(PFunc("static", "Both", ("pair", t.pick(rets[:3], "ov-p1"), t.pick(rets, "ov-p2")),
                                   [PArg(D, "x")]))
        fname = self.fresh(["combine", "blend", "merge"])
        for sg in t.shuffle(list(range(len(sigs))), "ov-fsigs")[:3]:
            self.p.functions.append((ns, PFunc("func", fname, t.pick(rets[:3], "ov-fret"),
                                               [PArg(a.ty, a.name, a.default) for a in sigs[sg]])))

    def force_samenames(self):
        """names that are easy to confuse in generated text: a class whose name is a prefix of another's, and
        the same class name in two namespaces (and at top level); every one of them with objects created,
        returned, passed to a function of the other, and alive at unload"""
        t = self.t
        base = self.fresh(["Node", "Frame", "Unit"])
        nsA = t.pick(NSN, "sn-ns")
        nsB = t.pick([n for n in NSN if n != nsA], "sn-ns2")
        # (no same-named class at top level: an unqualified top-level name would be shadowed inside nsA in C++)
        specs = [(base, [nsA]), (base + "2", [nsA]), (base, [nsB]), (base + "2d", [nsA, "inner"]), (base + "2dx", [])]
        if t.bool(0.5, "sn-drop"):
            specs.pop(1 + t.choose(len(specs) - 1, "sn-which"))
        specs = t.shuffle(specs, "sn-order")      # declaration order matters to text-based bookkeeping
        # ... in particular the longer name BEFORE the name it extends (`Unit2` before `Unit`): usually that way round
        ia = next((i for i, sp in enumerate(specs) if sp == (base, [nsA])), None)
        ib = next((i for i, sp in enumerate(specs) if sp == (base + "2", [nsA])), None)
        if ia is not None and ib is not None and ia < ib and t.bool(0.7, "sn-longer-first"):
            specs[ia], specs[ib] = specs[ib], specs[ia]
        I, D = PType("prim", "int"), PType("prim", "double")
        made = []
        for k, (nm, ns) in enumerate(specs):
            self.names.add(nm)
            c = PClass(nm, ns)
            self.p.classes.append(c)
            c.ctors.append(PFunc("ctor", nm, None, [PArg(D, "w", (repr(0.5 + k), 0.5 + k))]))
            c.methods.append(PFunc("method", "id%d" % k, I, [], const=True))
            c.methods.append(PFunc("method", "same", I, [PArg(I, "n")], const=True))
            c.statics.append(PFunc("static", "Make", PType("class", c.qname, t.pick(["sptr", "val"], "sn-ret")),
                                   [PArg(I, "n")]))
            c.props.append((self.fresh(PROPN + ["tag%d" % k]), t.pick([I, D], "sn-prop")))
            made.append(c)
        for k, c in enumerate(made):
            if k == 0:
                continue
            o = made[k - 1]          # declared earlier: complete in the library header
            c.methods.append(PFunc("method", "meet", I, [PArg(PType("class", o.qname, "cref"), "other"),
                                                          PArg(PType("class", c.qname, "sptr"), "me")]))
        self.p.functions.append(([], PFunc("func", self.fresh(["pairUp", "link", "join2"]), I,
                                           [PArg(PType("class", made[0].qname, "cref"), "a"),
                                            PArg(PType("class", made[-1].qname, "sptr"), "b")])))

    def force_uchar(self):
        """an `unsigned char` parameter (used by the known-finding program only: the generated guard asks
        isa(x,'unsigned char'), a class MATLAB does not have, so such a method can never be called)"""
        c = PClass(self.fresh(["ByteBox", "Octet"]), [])
        self.p.classes.append(c)
        c.ctors.append(PFunc("ctor", c.name, None, []))
        c.methods.append(PFunc("method", "put", PType("prim", "int"), [PArg(PType("prim", "unsigned char"), "c")]))

    def force_enum_nested(self):
        self.force_enum(nested=True)

    def force_enum(self, nested=False):
        t = self.t
        ns = [t.pick(NSN, "ns")]
        if nested:
            ns = ns + [t.pick(["inner", "detail"], "ns2")]      # enum and class two namespaces deep
        if nested and self.f.get("twin_inner_ns", True) and t.bool(0.6, "twin-inner-namespace"):
            # ANOTHER namespace with the same innermost name (a::detail next to b::detail), declared first, with a
            # class of its own and without the enumeration: the two are told apart by their full path only
            other = [n for n in NSN if n != ns[0]]
            c0 = PClass(self.fresh(["Probe", "Gauge", "Meter"]), [t.pick(other, "twin-outer-ns"), ns[1]])
            c0.declared_first = True
            c0.ctors.append(PFunc("ctor", c0.name, None, []))
            c0.methods.append(PFunc("method", "scale", PType("prim", "double"), [PArg(PType("prim", "int"), "n")],
                                    const=True))
            self.p.classes.insert(0, c0)
        gname = self.fresh(["Color", "Status", "Level"])
        ge = PEnum(gname, ns, [gname + x for x in ("Low", "Mid", "High")])
        self.p.enums.append(ge)
        c = PClass(self.fresh(["Pet", "Lamp", "Dial"]), ns)
        self.p.classes.append(c)
        # A class-scoped enum of a class two namespaces deep is written by MatlabWrapper to the package
        # "+<ns1><ns2>/+Class" (names glued together) instead of "+ns1/+ns2/+Class": MATLAB cannot resolve
        # ns1.ns2.Class.Kind (known finding of C11, exercised by the `thisargs` program only).
        ce = PEnum("Kind", ns, ["Dog", "Cat", "Bird"], owner=c) if (len(ns) < 2 or self.f.get("class_enum_nested")) else ge
        if ce is not ge:
            c.enums.append(ce)
            self.p.enums.append(ce)
        c.ctors.append(PFunc("ctor", c.name, None, [PArg(PType("enum", ce.qname), "kind")]))
        c.ctors.append(PFunc("ctor", c.name, None, []))
        c.methods.append(PFunc("method", "flip", PType("enum", ce.qname), [PArg(PType("enum", ce.qname), "k")]))
        c.methods.append(PFunc("method", "tint", PType("enum", ge.qname),
                               [PArg(PType("enum", ge.qname), "c"), PArg(PType("prim", "int"), "n", ("3", 3))],
                               const=True))
        c.statics.append(PFunc("static", "Default", PType("enum", ce.qname), []))
        if ce is not ge and self.f.get("enum_overloads", True):
            # overloads told apart by the enumeration only
            for en, nm in ((ce, "k"), (ge, "c")):
                c.methods.append(PFunc("method", "mark", PType("prim", "int"), [PArg(PType("enum", en.qname), nm)]))
                c.statics.append(PFunc("static", "Code", PType("prim", "int"), [PArg(PType("enum", en.qname), nm)]))
            c.ctors.append(PFunc("ctor", c.name, None, [PArg(PType("enum", ge.qname), "colour"), PArg(PType("prim", "int"), "n")]))
            c.ctors.append(PFunc("ctor", c.name, None, [PArg(PType("enum", ce.qname), "kind"), PArg(PType("prim", "int"), "n")]))

    def force_template(self):
        """a class template with an instantiation list; its instantiations are ordinary classes for the session"""
        t = self.t
        ns = [t.pick(NSN, "ns")] if t.bool(0.6, "tpl-ns") else []
        item = None
        plain = [k for k in self.p.classes if not k.parent and not k.virtual and k.ctors and not getattr(k, "tpl", None)]
        if plain and t.bool(0.6, "tpl-class-inst"):
            item = t.pick(plain, "tpl-item")
        pool = [PType("prim", "double"), PType("prim", "int"), PType("eig", "Point2"), PType("eig", "Vector")]
        insts = t.shuffle(pool, "tpl-insts")[:1 + t.choose(3, "tpl-ninst")]
        if self.f.get("this_args") and not any(i.name == "double" for i in insts):
            insts.insert(0, PType("prim", "double"))     # the known-finding program always has a lower-case instantiation
        if item is not None:
            insts.append(PType("class", item.qname, "val"))
        tpl = PTemplate(self.fresh(["Box", "Slot", "Cell", "Wrap"]), ns, insts)
        T = lambda mode="val": PType("tparam", "T", mode)
        TH = lambda mode="val": PType("this", tpl.name, mode)
        tpl.ctors.append(PFunc("ctor", tpl.name, None, [PArg(T(), "v")]))
        tpl.ctors.append(PFunc("ctor", tpl.name, None, []))
        tpl.methods.append(PFunc("method", "get", T(), [], const=True))
        tpl.methods.append(PFunc("method", "set", PType("prim", "void"), [PArg(T("cref"), "v"),
                                                                      PArg(PType("prim", "int"), "n", ("7", 7))]))
        # `This` inside a class template: on the pinned tree MatlabWrapper spells a `This` ARGUMENT with the
        # C++ name (isa(x,'geo.Box<double>'), "ptr_geoBox<double>") and a `This` RETURN of an instantiation
        # with a lower-case type name as "geo.Boxdouble" -- neither names the generated class (known finding
        # of C11).  The default profile keeps to what works; the `thisargs` program exercises the rest.
        lower = any(i.name[:1].islower() for i in insts)
        if self.f.get("this_args"):
            tpl.methods.append(PFunc("method", "merge", TH(t.pick(["val", "sptr"], "tpl-merge-ret")),
                                     [PArg(TH("cref"), "other")], const=True))
        tpl.methods.append(PFunc("method", "mix", self.ret_type(False), self.args(2, allow_class=False)))
        if self.f.get("this_args") or not lower:
            tpl.statics.append(PFunc("static", "Make", TH(t.pick(["val", "sptr"], "tpl-make-ret")), [PArg(T(), "v")]))
        else:
            tpl.statics.append(PFunc("static", "Make", T(), [PArg(T(), "v")]))
        if all(i.kind != "class" for i in insts):
            tpl.props.append((self.fresh(PROPN), T()))
        self.p.templates.append(tpl)
        for inst in insts:
            v = PClass(tpl.name + inst_suffix(inst), ns)
            v.tpl, v.inst = tpl, inst
            v.cpp_qname = "%s<%s>" % (tpl.qname, inst.name if inst.kind != "eig" else "gtsam::" + inst.name)

            def sub(ty, _v=v, _inst=inst):
                if isinstance(ty, tuple):
                    return (ty[0], sub(ty[1]), sub(ty[2]))
                if ty is None:
                    return None
                if ty.kind == "tparam":
                    mode = ty.mode if _inst.kind in ("class", "eig") else "val"
                    return PType(_inst.kind, _inst.name, mode)
                if ty.kind == "this":
                    return PType("class", _v.qname, ty.mode)
                return ty
            for src, dst in ((tpl.ctors, v.ctors), (tpl.methods, v.methods), (tpl.statics, v.statics)):
                for f in src:
                    g = PFunc(f.kind, v.name if f.kind == "ctor" else f.name, sub(f.ret),
                              [PArg(sub(a.ty), a.name, a.default) for a in f.args], const=f.const)
                    g.generic = f
                    dst.append(g)
            v.props = [(pn, sub(pt)) for pn, pt in tpl.props]
            tpl.views.append(v)
            self.p.classes.append(v)

    def force_objargs(self):
        t = self.t
        ns = [t.pick(NSN, "ns")] if t.bool(0.5, "oa-ns") else []
        a = PClass(self.fresh(["Item", "Part", "Token"]), ns)
        self.p.classes.append(a)
        a.ctors.append(PFunc("ctor", a.name, None, [PArg(PType("prim", "double"), "w", ("1.5", 1.5))]))
        a.props.append((self.fresh(PROPN), PType("prim", "double")))
        h = PClass(self.fresh(["Holder", "Box", "Bag"]), [])
        self.p.classes.append(h)
        h.ctors.append(PFunc("ctor", h.name, None, []))
        h.ctors.append(PFunc("ctor", h.name, None, [PArg(PType("class", a.qname, "cref"), "first")]))
        for mode in ("val", "cref", "ref", "sptr", "rptr"):
            h.methods.append(PFunc("method", "take_" + mode, t.pick([PType("prim", "int"), PType("prim", "void"),
                                                                     PType("class", a.qname, "sptr"),
                                                                     PType("class", a.qname, "val")], "oa-ret"),
                                   [PArg(PType("class", a.qname, mode), "it"), PArg(PType("prim", "int"), "n", ("7", 7))]))
        h.methods.append(PFunc("method", "both", ("pair", PType("class", a.qname, "sptr"), PType("class", a.qname, "val")),
                               [PArg(PType("class", a.qname, "sptr"), "x"), PArg(PType("class", a.qname, "cref"), "y")]))
        h.statics.append(PFunc("static", "Make", PType("class", h.qname, "sptr"), [PArg(PType("class", a.qname, "sptr"), "seed")]))


def _mclass(ty):
    return {"int": "numeric", "size_t": "numeric", "double": "double", "bool": "logical", "string": "char",
            "char": "char", "unsigned char": "uint8"}[ty.name]


def _guard_sig(f):
    return tuple((a.ty.kind, a.ty.name) for a in f.args)


def _dedupe_signatures(p):
    """C++ cannot overload on return type or constness alone: keep the first of each (name, parameter types)"""
    def uniq(funcs):
        seen, out = set(), []
        for f in funcs:
            key = (f.name, tuple(a.ty.cpp() for a in f.args))
            if key not in seen:
                seen.add(key)
                out.append(f)
        return out
    for c in list(p.classes) + list(p.templates):
        c.ctors[:] = uniq(c.ctors)
        both = uniq(c.methods + c.statics)      # a static and a method may not share a signature either
        c.methods[:] = [f for f in both if f.kind == "method"]
        c.statics[:] = [f for f in both if f.kind == "static"]
    seen, out = set(), []
    for ns, f in p.functions:
        key = (tuple(ns), f.name, tuple(a.ty.cpp() for a in f.args))
        if key not in seen:
            seen.add(key)
            out.append((ns, f))
    p.functions[:] = out


def _assign_entities(p):
    n = [0]

    def tag(f, prefix):
        n[0] += 1
        f.entity = "%s#%d" % (prefix, n[0])

    for tp in p.templates:
        for i, f in enumerate(tp.ctors):
            n[0] += 1
            f.entity_suffix, f.overload = "::%s#%d" % (tp.name, n[0]), i
        for group in (tp.methods, tp.statics):
            for i, f in enumerate(group):
                n[0] += 1
                f.entity_suffix, f.overload = "::%s#%d" % (f.name, n[0]), i
    for c in p.classes:
        if getattr(c, "tpl", None) is not None:
            for f in c.ctors + c.methods + c.statics:
                f.entity = c.qname + f.generic.entity_suffix
                f.overload = f.generic.overload
            continue
        for i, f in enumerate(c.ctors):
            tag(f, c.qname + "::" + c.name)
            f.overload = i
        for group in (c.methods, c.statics):
            for i, f in enumerate(group):
                tag(f, c.qname + "::" + f.name)
                f.overload = i
    for i, (ns, f) in enumerate(p.functions):
        tag(f, "::".join(ns + [f.name]))
        f.overload = i


# ---------------------------------------------------------------------------
# interface text
# ---------------------------------------------------------------------------
def _iface_ret(r):
    if isinstance(r, tuple):
        return "pair<%s, %s>" % (r[1].iface(), r[2].iface())
    return r.iface()


def _iface_args(args):
    out = []
    for a in args:
        s = "%s %s" % (a.ty.iface(), a.name)
        if a.default is not None:
            s += " = " + a.default[0]
        out.append(s)
    return ", ".join(out)


def emit_interface(p):
    """declarations grouped by namespace, in creation order of first appearance"""
    lines = ["#include <lib.h>", ""]
    units = []
    for c in p.classes:
        if getattr(c, "tpl", None) is None and getattr(c, "declared_first", False):
            units.append((c.ns, "class", c))
    for e in p.enums:
        if e.owner is None:
            units.append((e.ns, "enum", e))
    for c in p.classes:
        if getattr(c, "tpl", None) is None and not getattr(c, "declared_first", False):
            units.append((c.ns, "class", c))
    for tp in p.templates:
        units.append((tp.ns, "template", tp))
    for ns, f in p.functions:
        units.append((ns, "func", f))
    # classes must precede their uses only for C++; wrap does not care.  Keep model order per namespace.
    layout = getattr(p, "layout", None) or {}
    if layout.get("unit_order"):
        # the order in which a hand-written file happens to list things: a tape-chosen permutation
        units = [units[k] for k in layout["unit_order"] if k < len(units)] + units[len(layout["unit_order"]):]
    order = []
    if layout.get("reopen"):
        # namespaces are re-opened wherever the next declaration lives elsewhere (as in files that grew over time)
        for u in units:
            if not order or order[-1][0] != tuple(u[0]):
                order.append((tuple(u[0]), [u]))
            else:
                order[-1][1].append(u)
    else:
        seen_ns = []
        for ns, _, _ in units:
            if tuple(ns) not in seen_ns:
                seen_ns.append(tuple(ns))
        order = [(ns, [u for u in units if tuple(u[0]) == ns]) for ns in seen_ns]
    for ns, block in order:
        ind = ""
        for n in ns:
            lines.append("namespace %s {" % n)
        for uns, kind, u in block:
            if kind == "enum":
                lines.append("%senum %s { %s };" % (ind, u.name, ", ".join(u.values)))
            elif kind == "func":
                lines.append("%s%s %s(%s);" % (ind, _iface_ret(u.ret), u.name, _iface_args(u.args)))
            elif kind == "template":
                lines.append("%stemplate<T = {%s}>" % (ind, ", ".join(i.iface() for i in u.insts)))
                lines.append("%sclass %s {" % (ind, u.name))
                for f in u.ctors:
                    lines.append("%s  %s(%s);" % (ind, u.name, _iface_args(f.args)))
                for f in u.methods:
                    lines.append("%s  %s %s(%s)%s;" % (ind, _iface_ret(f.ret), f.name, _iface_args(f.args),
                                                       " const" if f.const else ""))
                for f in u.statics:
                    lines.append("%s  static %s %s(%s);" % (ind, _iface_ret(f.ret), f.name, _iface_args(f.args)))
                for pn, pt in u.props:
                    lines.append("%s  %s %s;" % (ind, pt.iface(), pn))
                lines.append(ind + "};")
            else:
                c = u
                head = ("virtual " if c.virtual else "") + "class " + c.name
                if c.parent:
                    head += " : " + c.parent
                lines.append(ind + head + " {")
                for e in c.enums:
                    lines.append("%s  enum %s { %s };" % (ind, e.name, ", ".join(e.values)))
                for f in c.ctors:
                    lines.append("%s  %s(%s);" % (ind, c.name, _iface_args(f.args)))
                for f in c.methods:
                    lines.append("%s  %s %s(%s)%s;" % (ind, _iface_ret(f.ret), f.name, _iface_args(f.args),
                                                       " const" if f.const else ""))
                for f in c.statics:
                    lines.append("%s  static %s %s(%s);" % (ind, _iface_ret(f.ret), f.name, _iface_args(f.args)))
                for pn, pt in c.props:
                    lines.append("%s  %s %s;" % (ind, pt.iface(), pn))
                lines.append(ind + "};")
        for n in ns:
            lines.append("}")
        lines.append("")
    return "\n".join(lines)


# ---------------------------------------------------------------------------
# instrumented library
# ---------------------------------------------------------------------------
LIB_PRELUDE = r'''// generated by /verif/gen/mexprog.py -- instrumented stand-in for the wrapped library
#pragma once
#include <cstring>
#include <map>
#include <memory>
#include <set>
#include <sstream>
#include <stdexcept>
#include <string>
#include <type_traits>
#include <utility>
#include <vector>
#include <gtsam/base/Vector.h>
#include <gtsam/base/Matrix.h>
#include <gtsam/geometry/Point2.h>
#include <gtsam/geometry/Point3.h>

namespace lib {
struct Event { std::string entity; int overload; long self; std::vector<std::string> args; std::string ret; };
struct State {
  std::vector<Event> trace;
  std::map<const void*, std::pair<long, std::string>> live;   // address -> (serial, class)
  std::set<long> destroyed;
  long double_destroy = 0;
  long next_serial = 1;
  long counter = 0;            // drives return values
  long calls = 0;
  long throw_at = -1;
  std::map<std::string, std::vector<std::shared_ptr<void>>> retained;   // objects the library keeps
  bool return_retained = false;
};
inline State& S() { static State s; return s; }

class Tracked {
 public:
  Tracked() : serial(S().next_serial++) {}
  Tracked(const Tracked& o) : serial(S().next_serial++), copied_from(o.serial) {
    Event e; e.entity = "copy"; e.overload = 0; e.self = serial;
    e.args.push_back(std::to_string(o.serial)); S().trace.push_back(e);
  }
  Tracked& operator=(const Tracked&) { return *this; }
  virtual ~Tracked() {
    if (!S().live.erase(this) || !S().destroyed.insert(serial).second) ++S().double_destroy;
  }
  long serial;
  long copied_from = 0;
};
// every constructor level registers the object under its own class; the most derived one runs last
inline void born(const Tracked* t, const char* cls, bool) {
  S().live[t] = std::make_pair(t->serial, std::string(cls));
}
// an object's "peer" (a child, a neighbour it owns) belongs to that object alone: copying or assigning the object
// does not share it (the copy makes its own on demand)
template <class T> struct OwnedPeer {
  std::shared_ptr<T> p;
  OwnedPeer() {}
  OwnedPeer(const OwnedPeer&) {}
  OwnedPeer& operator=(const OwnedPeer&) { return *this; }
};
// a class-typed data member is an object of its own, owned by (and dying with) the enclosing object
inline void owns(const Tracked* owner, const Tracked* member) {
  Event e; e.entity = "own"; e.overload = 0; e.self = owner->serial;
  e.args.push_back(std::to_string(member->serial)); S().trace.push_back(e);
}
inline std::string hexd(double d) { unsigned char b[8]; std::memcpy(b, &d, 8); static const char* h = "0123456789abcdef";
  std::string s; for (int i = 0; i < 8; ++i) { s.push_back(h[b[i] >> 4]); s.push_back(h[b[i] & 15]); } return s; }
inline std::string enc(int v) { return "i:" + std::to_string(v); }
inline std::string enc(size_t v) { return "z:" + std::to_string(v); }
inline std::string enc(char v) { return "c:" + std::to_string((int)(unsigned char)v); }
inline std::string enc(unsigned char v) { return "u:" + std::to_string((int)v); }
inline std::string enc(bool v) { return std::string("b:") + (v ? "1" : "0"); }
inline std::string enc(double v) { return "d:" + hexd(v); }
inline std::string enc(const std::string& v) { std::string s = "s:"; static const char* h = "0123456789abcdef";
  for (unsigned char c : v) { s.push_back(h[c >> 4]); s.push_back(h[c & 15]); } return s; }
inline std::string enc(const gtsam::Vector& v) { std::string s = "V:" + std::to_string(v.size());
  for (int i = 0; i < v.size(); ++i) s += ":" + hexd(v(i)); return s; }
template <int N> inline std::string enc(const gtsam::FixedVector<N>& v) { std::string s = "V:" + std::to_string(N);
  for (int i = 0; i < N; ++i) s += ":" + hexd(v(i)); return s; }
inline std::string enc(const gtsam::Matrix& A) { std::string s = "M:" + std::to_string(A.rows()) + ":" + std::to_string(A.cols());
  for (int i = 0; i < A.rows(); ++i) for (int j = 0; j < A.cols(); ++j) s += ":" + hexd(A(i, j)); return s; }
inline std::string enc_obj(const Tracked* t) {
  if (!t) return "o:null";
  auto it = S().live.find(t);
  return it == S().live.end() ? std::string("o:dead") : "o:" + std::to_string(it->second.first);
}
// the library may keep what it is given (a graph keeps its factors): with `return_retained` on, every
// shared pointer received is put into the pool of its declared class (once)
template <class U> inline void keep(const char* cls, const std::shared_ptr<U>& p) {
  if (!S().return_retained || !p) return;
  // one extra reference per object, whatever static type it arrives as (all classes put lib::Tracked first)
  const void* addr = static_cast<const Tracked*>(p.get());
  for (auto& kv : S().retained) for (auto& q : kv.second) if (q.get() == addr) return;
  S().retained[cls].push_back(std::static_pointer_cast<void>(p));
}
inline void enter(Event& e, const char* entity, int overload, long self) {
  e.entity = entity; e.overload = overload; e.self = self;
  long k = ++S().calls;
  if (S().throw_at > 0 && k == S().throw_at) { S().throw_at = -1; e.ret = "throw"; S().trace.push_back(e);
    throw std::runtime_error(std::string("injected failure in ") + entity); }
}
inline void leave(Event& e) { S().trace.push_back(e); }
inline long tick() { return ++S().counter; }
// results cover the type's range: negative ints, sizes above 2^32 and above 2^63 (npos-like sentinels, keys with a
// character in the top byte)
inline int ret_int() { long k = tick(); return k % 3 == 0 ? -(int)(1000 + k) : (k % 7 == 0 ? (int)(-2147483647 - 1 + k) : (int)(1000 + k)); }
inline size_t ret_size() { long k = tick(); return k % 4 == 0 ? (size_t)(0xC800000000000000ULL + (size_t)k)
                                                 : (k % 9 == 0 ? (size_t)-1 : (size_t)(5000000000ULL + (size_t)k)); }
inline char ret_char() { return (char)(33 + tick() % 90); }
inline bool ret_bool() { return tick() % 2 == 0; }
inline double ret_double() { return 0.25 + (double)tick(); }
inline std::string ret_string() { return "r" + std::to_string(tick()); }
inline gtsam::Vector ret_vector(int n) { gtsam::Vector v(n); for (int i = 0; i < n; ++i) v(i) = (double)tick() + 0.5; return v; }
inline gtsam::Matrix ret_matrix() { gtsam::Matrix A(2, 3); for (int i = 0; i < 2; ++i) for (int j = 0; j < 3; ++j) A(i, j) = (double)tick() + 0.125; return A; }
// generic helpers for class templates
template <class U> struct TName;          // suffix gtwrap appends for an instantiation with U
template <class U> typename std::enable_if<std::is_base_of<Tracked, U>::value, std::string>::type
enc_any(const U& u) { return enc_obj(&u); }
template <class U> typename std::enable_if<!std::is_base_of<Tracked, U>::value, std::string>::type
enc_any(const U& u) { return enc(u); }
template <class U, class Enable = void> struct RetAny;
template <> struct RetAny<int> { static int make(std::string& r) { int v = ret_int(); r = enc(v); return v; } };
template <> struct RetAny<double> { static double make(std::string& r) { double v = ret_double(); r = enc(v); return v; } };
template <> struct RetAny<gtsam::Vector> { static gtsam::Vector make(std::string& r) { gtsam::Vector v = ret_vector(3); r = enc(v); return v; } };
template <int N> struct RetAny<gtsam::FixedVector<N>> { static gtsam::FixedVector<N> make(std::string& r) {
  gtsam::FixedVector<N> v = gtsam::FixedVector<N>(ret_vector(N)); r = enc(v); return v; } };
template <class U> struct RetAny<U, typename std::enable_if<std::is_base_of<Tracked, U>::value>::type> {
  static U make(std::string& r) { U rv{typename U::LibTag()}; r = enc_obj(&rv); return rv; } };
template <class T> std::shared_ptr<T> ret_shared(const char* cls) {
  auto& pool = S().retained[cls];
  if (S().return_retained && !pool.empty()) return std::static_pointer_cast<T>(pool[tick() % pool.size()]);
  std::shared_ptr<T> p(new T(typename T::LibTag()));
  if (S().return_retained) pool.push_back(p);
  return p;
}
}  // namespace lib
'''


def _cpp_ret(r):
    if isinstance(r, tuple):
        return "std::pair<%s, %s>" % (_cpp_ret(r[1]), _cpp_ret(r[2]))
    if r.kind == "this" and r.mode == "val":
        return "%s<T>" % r.name
    if r.kind == "class" and r.mode == "val":
        return r.name
    return r.cpp()


def _ret_expr(r, e="e"):
    """C++ statements computing `rv` of the declared type and recording it in e.ret"""
    if isinstance(r, tuple):
        a = _ret_expr(r[1]).replace("rv", "rv1").replace("e.ret =", "e.ret = std::string(\"P1=\") +")
        b = _ret_expr(r[2]).replace("rv", "rv2").replace("e.ret =", "e.ret += std::string(\" P2=\") +")
        return a + " " + b + " auto rv = std::make_pair(rv1, rv2);"
    if r.kind == "tparam":
        return "T rv = lib::RetAny<T>::make(e.ret);"
    if r.kind == "this":
        if r.mode == "sptr":
            return "std::shared_ptr<%s<T>> rv = lib::ret_shared<%s<T>>(cls().c_str()); e.ret = lib::enc_obj(rv.get());" % (
                r.name, r.name)
        return "%s<T> rv{LibTag()}; e.ret = lib::enc_obj(&rv);" % r.name
    if r.kind == "prim":
        if r.name == "void":
            return "e.ret = \"void\";"
        fn = {"int": "ret_int()", "size_t": "ret_size()", "bool": "ret_bool()", "double": "ret_double()",
              "string": "ret_string()", "char": "ret_char()"}[r.name]
        return "auto rv = lib::%s; e.ret = lib::enc(rv);" % fn
    if r.kind == "eig":
        if r.name == "Matrix":
            return "gtsam::Matrix rv = lib::ret_matrix(); e.ret = lib::enc(rv);"
        n = {"Vector": 3, "Point2": 2, "Point3": 3}[r.name]
        return "gtsam::%s rv = gtsam::%s(lib::ret_vector(%d)); e.ret = lib::enc(rv);" % (r.name, r.name, n)
    if r.kind == "enum":
        return "%s rv = static_cast<%s>(lib::tick() %% 2); e.ret = \"e:\" + std::to_string((int)rv);" % (r.name, r.name)
    if r.mode == "sptr":
        return "std::shared_ptr<%s> rv = lib::ret_shared<%s>(\"%s\"); e.ret = lib::enc_obj(rv.get());" % (
            r.name, r.name, r.name)
    if r.mode in ("cref_peer", "ref_peer"):
        # a reference to ANOTHER object of the class, owned by this one (a child, a neighbour): `T& f()` is not
        # always `return *this`
        return ("if (!this->peer_.p) { this->peer_.p = std::make_shared<%s>(typename %s::LibTag()); "
                "lib::owns(this, this->peer_.p.get()); } %s rv = *this->peer_.p; e.ret = lib::enc_obj(&rv);"
                % (r.name, r.name, r.cpp()))
    if r.mode in ("cref", "ref"):
        # a reference to the object itself (declared in the class or in a class derived from it): the wrapper
        # must hand MATLAB a copy that it owns, never an alias of an object owned by another handle
        return "%s rv = *this; e.ret = lib::enc_obj(&rv);" % r.cpp()
    return "%s rv{typename %s::LibTag()}; e.ret = lib::enc_obj(&rv);" % (r.name, r.name)


def _enc_arg(a):
    t = a.ty
    if t.kind == "tparam":
        return "lib::enc_any(%s)" % a.name
    if t.kind == "this":
        return "lib::enc_obj(%s.get())" % a.name if t.mode == "sptr" else "lib::enc_obj(&%s)" % a.name
    if t.kind == "class":
        if t.mode in ("sptr",):
            return "lib::enc_obj(%s.get())" % a.name
        if t.mode == "rptr":
            return "lib::enc_obj(%s)" % a.name
        return "lib::enc_obj(&%s)" % a.name
    if t.kind == "enum":
        return "(\"e:\" + std::to_string((int)%s))" % a.name
    return "lib::enc(%s)" % a.name


def _sig(args):
    return ", ".join("%s %s" % (a.ty.cpp(), a.name) for a in args)


def _body(f, self_expr, ret, entity_expr=None):
    s = "lib::Event e; lib::enter(e, %s, %d, %s);" % (entity_expr or "\"%s\"" % f.entity, f.overload, self_expr)
    for a in f.args:
        s += " e.args.push_back(%s);" % _enc_arg(a)
    for a in f.args:
        if a.ty.kind == "class" and a.ty.mode == "sptr":
            s += " lib::keep(\"%s\", %s);" % (a.ty.name, a.name)
        elif a.ty.kind == "this" and a.ty.mode == "sptr":
            s += " lib::keep(cls().c_str(), %s);" % a.name
    if ret is not None:
        s += " " + _ret_expr(ret)
    s += " lib::leave(e);"
    if ret is not None and not (not isinstance(ret, tuple) and ret.kind == "prim" and ret.name == "void"):
        s += " return rv;"
    return s


def emit_library(p):
    out = [LIB_PRELUDE]
    # forward declarations, namespace by namespace
    for c in p.classes:
        if getattr(c, "tpl", None) is None:
            out.append("".join("namespace %s { " % n for n in c.ns) + "class %s;" % c.name + " }" * len(c.ns))
    for tp in p.templates:
        out.append("".join("namespace %s { " % n for n in tp.ns) + "template <class T> class %s;" % tp.name +
                   " }" * len(tp.ns))
    seen_t = set()
    for tp in p.templates:
        for i in tp.insts:
            cpp = i.name if i.kind != "eig" else "gtsam::" + i.name
            if cpp not in seen_t:
                seen_t.add(cpp)
                out.append("namespace lib { template <> struct TName<%s> { static const char* v() { return \"%s\"; } }; }"
                           % (cpp, inst_suffix(i)))
    for e in p.enums:
        if e.owner is None:
            out.append("".join("namespace %s { " % n for n in e.ns) +
                       "enum %s { %s };" % (e.name, ", ".join(e.values)) + " }" * len(e.ns))
    for c in p.classes:
        if getattr(c, "tpl", None) is not None:
            continue
        out.append("".join("namespace %s { " % n for n in c.ns))
        base = ("public %s" % c.parent) if c.parent else "public lib::Tracked"
        out.append("class %s : %s {" % (c.name, base))
        out.append(" public:")
        for e in c.enums:
            out.append("  enum %s { %s };" % (e.name, ", ".join(e.values)))
        out.append("  struct LibTag {};")
        binit = ("%s(typename %s::LibTag())" % (c.parent, c.parent)) if c.parent else "lib::Tracked()"
        own = "".join(" lib::owns(this, &%s);" % pn for pn, pt in c.props if pt.kind == "class")
        minit = "".join(", %s(typename %s::LibTag())" % (pn, pt.name) for pn, pt in c.props if pt.kind == "class")
        out.append("  explicit %s(LibTag) : %s%s { lib::born(this, \"%s\", false);%s }" %
                   (c.name, binit, minit, c.qname, own))
        cbase = ("%s(o)" % c.parent) if c.parent else "lib::Tracked(o)"
        propcopy = "".join(", %s(o.%s)" % (pn, pn) for pn, _ in c.props)
        out.append("  %s(const %s& o) : %s%s { lib::born(this, \"%s\", %s);%s }" %
                   (c.name, c.name, cbase, propcopy, c.qname, "true", own))
        out.append("  virtual ~%s() {}" % c.name)
        for f in c.ctors:
            binit2 = ("%s(typename %s::LibTag())" % (c.parent, c.parent)) if c.parent else "lib::Tracked()"
            body = "lib::born(this, \"%s\", false);%s " % (c.qname, own) + _body(f, "this->serial", None)
            out.append("  %s%s(%s) : %s%s { %s }" % ("explicit " if len(f.args) == 1 else "", c.name, _sig(f.args),
                                                   binit2, minit, body))
        for f in c.methods:
            out.append("  %s %s(%s)%s { %s }" % (_cpp_ret(f.ret), f.name, _sig(f.args), " const" if f.const else "",
                                                 _body(f, "this->serial", f.ret)))
        for f in c.statics:
            out.append("  static %s %s(%s) { %s }" % (_cpp_ret(f.ret), f.name, _sig(f.args), _body(f, "0", f.ret)))
        if any(not isinstance(f.ret, tuple) and f.ret is not None and str(f.ret.mode).endswith("_peer") for f in c.methods):
            out.append("  mutable lib::OwnedPeer<%s> peer_;" % c.name)
        for pn, pt in c.props:
            init = {"int": " = 0", "double": " = 0.0", "bool": " = false", "size_t": " = 0"}.get(pt.name, "")
            if pt.kind == "class":
                init = ""
            out.append("  %s %s%s;" % (pt.name if pt.kind == "class" else pt.cpp(), pn, init))
        out.append("};")
        out.append("}" * len(c.ns))
    for tp in p.templates:
        out.append("".join("namespace %s { " % n for n in tp.ns))
        out.append("template <class T> class %s : public lib::Tracked {" % tp.name)
        out.append(" public:")
        out.append("  struct LibTag {};")
        out.append("  static std::string cls() { return std::string(\"%s\") + lib::TName<T>::v(); }" % tp.qname)
        pinit = "".join(", %s()" % pn for pn, _ in tp.props)
        pcopy = "".join(", %s(o.%s)" % (pn, pn) for pn, _ in tp.props)
        out.append("  explicit %s(LibTag) : lib::Tracked()%s { lib::born(this, cls().c_str(), false); }" % (tp.name, pinit))
        out.append("  %s(const %s& o) : lib::Tracked(o)%s { lib::born(this, cls().c_str(), true); }" % (tp.name, tp.name, pcopy))
        out.append("  virtual ~%s() {}" % tp.name)
        for f in tp.ctors:
            ent = "(cls() + \"%s\").c_str()" % f.entity_suffix
            body = "lib::born(this, cls().c_str(), false); " + _body(f, "this->serial", None, ent)
            out.append("  %s%s(%s) : lib::Tracked()%s { %s }" % ("explicit " if len(f.args) == 1 else "", tp.name,
                                                                _sig(f.args), pinit, body))
        for f in tp.methods:
            ent = "(cls() + \"%s\").c_str()" % f.entity_suffix
            out.append("  %s %s(%s)%s { %s }" % (_cpp_ret(f.ret), f.name, _sig(f.args), " const" if f.const else "",
                                                 _body(f, "this->serial", f.ret, ent)))
        for f in tp.statics:
            ent = "(cls() + \"%s\").c_str()" % f.entity_suffix
            out.append("  static %s %s(%s) { %s }" % (_cpp_ret(f.ret), f.name, _sig(f.args), _body(f, "0", f.ret, ent)))
        for pn, pt in tp.props:
            out.append("  T %s;" % pn)
        out.append("};")
        out.append("}" * len(tp.ns))
    out.append("// a derived class re-registers itself under its own name: born() of the most derived runs last")
    for ns, f in p.functions:
        out.append("".join("namespace %s { " % n for n in ns))
        out.append("inline %s %s(%s) { %s }" % (_cpp_ret(f.ret), f.name, _sig(f.args), _body(f, "0", f.ret)))
        out.append("}" * len(ns))
    return "\n".join(out) + "\n"


def generate(tape, features=None):
    g = ProgGen(tape, features)
    p = g.program()
    return p, emit_interface(p), emit_library(p)
