"""Generator of Doxygen-style XML trees from a documentation table.

The table is built by the harness, so the right text for every binding is known
by construction (not by re-running wrap's extractor):

    doc = {"classes": [ {"name": "ns::Cls", "refid": "classns_1_1Cls", "in_index": True,
                         "members": [ {"name": "f", "kind": "function",
                                       "params": [ {"name": "a", "tag": "declname"|"defname"|None,
                                                    "defval": None|"0"} ],
                                       "brief": str|None, "detailed": str|None,
                                       "param_docs": [(pname, text)] | None,
                                       "returns": str|None,
                                       "argsstring": True|False } ] } ]}
"""


def xml_text(s):
    """Escape text for XML content so that the parser returns exactly `s`:
    markup characters as entities; characters that XML parsers normalise or that are
    only legal as references (CR, C0/C1 controls allowed by XML 1.0) as numeric
    character references."""
    out = []
    for ch in s:
        o = ord(ch)
        if ch == "&":
            out.append("&amp;")
        elif ch == "<":
            out.append("&lt;")
        elif ch == ">":
            out.append("&gt;")
        elif o in (0x9, 0xA):
            out.append(ch)
        elif o == 0xD or 0x7F <= o <= 0x9F or o in (0x2028, 0x2029):
            out.append("&#%d;" % o)
        else:
            out.append(ch)
    return "".join(out)


def xml_legal(ch):
    o = ord(ch)
    return o in (0x9, 0xA, 0xD) or 0x20 <= o <= 0xD7FF or 0xE000 <= o <= 0xFFFD or \
        0x10000 <= o <= 0x10FFFF


def member_xml(m, idx):
    out = ['      <memberdef kind="%s" id="m_%d" prot="public" static="%s">' %
           (m.get("kind", "function"), idx, "yes" if m.get("static") else "no")]
    out.append("        <type>void</type>")
    if m.get("argsstring", True):
        out.append("        <argsstring>(%s)</argsstring>" %
                   xml_text(", ".join("T %s" % (p["name"],) for p in m["params"])))
    out.append("        <name>%s</name>" % xml_text(m["name"]))
    for p in m["params"]:
        out.append("        <param>")
        out.append("          <type>T</type>")
        if p.get("tag", "declname"):
            out.append("          <%s>%s</%s>" % (p["tag"] if p.get("tag") else "declname",
                                                  xml_text(p["name"]),
                                                  p["tag"] if p.get("tag") else "declname"))
        if p.get("defval") is not None:
            out.append("          <defval>%s</defval>" % xml_text(p["defval"]))
        out.append("        </param>")
    if m.get("brief") is not None:
        out.append("        <briefdescription><para>%s</para></briefdescription>" % xml_text(m["brief"]))
    if m.get("detailed") is not None or m.get("param_docs") or m.get("returns") is not None or m.get("sects_before"):
        out.append("        <detaileddescription>")
        if m.get("detailed") is not None:
            out.append("          <para>%s</para>" % xml_text(m["detailed"]))
        if m.get("param_docs") or m.get("returns") is not None or m.get("sects_before"):
            out.append("          <para>")
            if m.get("param_docs"):
                out.append('            <parameterlist kind="param">')
                for pn, pd in m["param_docs"]:
                    # pn None: an item without <parametername>; pd None: a parameter documented without any
                    # description text (no <para> inside <parameterdescription>) -- partial, well-formed trees
                    nm = "<parametername>%s</parametername>" % xml_text(pn) if pn is not None else ""
                    ds = "<para>%s</para>" % xml_text(pd) if pd is not None else ""
                    out.append("              <parameteritem><parameternamelist>%s</parameternamelist>"
                               "<parameterdescription>%s</parameterdescription></parameteritem>" % (nm, ds))
                out.append("            </parameterlist>")
            for kind, text in m.get("sects_before", ()):      # e.g. @see / @note sections ahead of @return
                out.append('            <simplesect kind="%s"><para>%s</para></simplesect>' % (kind, xml_text(text)))
            if m.get("returns") is not None:
                rk = m.get("returns_kind", "return")
                attr = ' kind="%s"' % rk if rk is not None else ""
                body = "<para>%s</para>" % xml_text(m["returns"]) if m["returns"] != "\0nopara" else ""
                out.append('            <simplesect%s>%s</simplesect>' % (attr, body))
            out.append("          </para>")
        out.append("        </detaileddescription>")
    out.append("      </memberdef>")
    return "\n".join(out)


def class_xml(c):
    """members are filed the way Doxygen files them: one <sectiondef> per kind (`m["section"]`: public-func,
    public-static-func, user-defined for members of a named group, public-attrib, ...), sections in order of
    first appearance, members in table order inside their section"""
    out = ['<?xml version="1.0" encoding="%s" standalone="no"?>' % c.get("encoding", "UTF-8"), "<doxygen>",
           '  <compounddef id="%s" kind="class" language="C++" prot="public">' % c["refid"],
           "    <compoundname>%s</compoundname>" % xml_text(c["name"])]
    sections = []
    for i, m in enumerate(c["members"]):
        sec = m.get("section", "public-func")
        if sec not in sections:
            sections.append(sec)
    if not sections:
        sections = ["public-func"]
    for sec in sections:
        out.append('    <sectiondef kind="%s">' % sec.split("#")[0])
        if sec.startswith("user-defined"):
            out.append("      <header>%s</header>" % xml_text(sec.partition("#")[2] or "Group"))
        for i, m in enumerate(c["members"]):
            if m.get("section", "public-func") == sec:
                out.append(member_xml(m, i))
        out.append("    </sectiondef>")
    out += ["  </compounddef>", "</doxygen>", ""]
    return encode_xml("\n".join(out), c.get("encoding", "UTF-8"))


def encode_xml(text, encoding):
    """any encoding an XML parser must honour: what the target cannot express becomes a character reference"""
    return text.encode(encoding, "xmlcharrefreplace")


def index_xml(doc):
    out = ['<?xml version="1.0" encoding="%s" standalone="no"?>' % doc.get("index_encoding", "UTF-8"),
           "<doxygenindex>"]
    for c in doc["classes"]:
        if not c.get("in_index", True):
            continue
        out.append('  <compound refid="%s" kind="class"><name>%s</name>' % (c["refid"], xml_text(c["name"])))
        for i, m in enumerate(c["members"]):
            out.append('    <member refid="m_%d" kind="function"><name>%s</name></member>' %
                       (i, xml_text(m["name"])))
        out.append("  </compound>")
    out += ["</doxygenindex>", ""]
    return encode_xml("\n".join(out), doc.get("index_encoding", "UTF-8"))


def build_tree(doc):
    """-> {relative file name: bytes}"""
    files = {"index.xml": index_xml(doc)}
    for c in doc["classes"]:
        if c.get("has_file", True):
            files[c["refid"] + ".xml"] = class_xml(c)
    return files


def refid_for(name):
    return "class" + name.replace("::", "_1_1").replace("<", "_3_01").replace(">", "_01_4").replace(
        " ", "").replace(",", "_00")
