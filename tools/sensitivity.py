#!/venv/bin/python
"""Sensitivity self-test: apply each mutant patch (mutants/<prop>_<name>.patch) to a scratch
worktree of /repo OUTSIDE /repo and /verif, run the property's quick check against it
(VERIF_REPO=<worktree>) and expect exit 1 with a VIOLATION line.  The worktree is removed
afterwards.  Usage: tools/sensitivity.py [PROP ...]   (default: all mutants)"""
import glob
import os
import subprocess
import sys
import tempfile
import time

VERIF = os.path.dirname(os.path.dirname(os.path.abspath(__file__)))


def main():
    want = [a.upper() for a in sys.argv[1:]]
    rows = []
    for patch in sorted(glob.glob(os.path.join(VERIF, "mutants", "*.patch"))):
        name = os.path.basename(patch)[:-6]
        prop = name.split("_")[0].upper()
        if want and prop not in want and not any(w.lower() in name for w in want):
            continue
        wt = tempfile.mkdtemp(prefix="verif-mut-")
        os.rmdir(wt)
        try:
            subprocess.run(["git", "-C", "/repo", "worktree", "add", "-q", "--detach", wt, "HEAD"], check=True)
            r = subprocess.run(["git", "-C", wt, "apply", patch], capture_output=True, text=True)
            if r.returncode:
                rows.append((name, "PATCH-FAILED", 0, r.stderr.strip()[:200]))
                continue
            tests = ""
            if os.environ.get("SENS_WITH_TESTS"):
                tp = subprocess.run([sys.executable, "-m", "pytest", "-q", "-p", "no:cacheprovider", "-x", "tests"],
                                    cwd=wt, capture_output=True, text=True,
                                    env=dict(os.environ, PYTHONPATH=wt))
                tests = " [tests: %s]" % (tp.stdout.strip().splitlines() or ["?"])[-1][:60]
            scratch = tempfile.mkdtemp(prefix="verif-mut-out-")
            env = dict(os.environ, VERIF_REPO=wt, VERIF_EVIDENCE_DIR=scratch, VERIF_REPLAY_DIR=scratch)
            t0 = time.time()
            p = subprocess.run([sys.executable, os.path.join(VERIF, "run_check.py"), prop, "--tier", "quick"],
                               env=env, capture_output=True, text=True, cwd=VERIF)
            caught = p.returncode == 1 and "VIOLATION property=%s" % prop in p.stdout
            first = [l for l in p.stdout.splitlines() if l.startswith("violation")][:1]
            rows.append((name, "caught" if caught else "MISSED(exit %d)" % p.returncode,
                         time.time() - t0, (first or [p.stdout.strip().splitlines()[-1] if p.stdout.strip() else ""])[0][:160] + tests))
        finally:
            subprocess.run(["git", "-C", "/repo", "worktree", "remove", "--force", wt], capture_output=True)
            import shutil
            shutil.rmtree(locals().get("scratch", "/nonexistent"), ignore_errors=True)
    for r in rows:
        print("%-40s %-18s %6.1fs  %s" % r)
    # restore evidence from the unchanged tree is the caller's business
    return 0 if all(r[1] == "caught" for r in rows) else 1


if __name__ == "__main__":
    sys.exit(main())
