#!/bin/bash
# run every quick check under several VERIF_SEED values on the unchanged tree; all must exit 0
# (evidence/replays of these extra runs go to a scratch directory)
# usage: tools/multiseed.sh "1 2 3" [PROP ...]
seeds=${1:-"1 2 3"}; shift
props=${@:-"C07 C11 C14 C17 C18"}
out=$(mktemp -d /tmp/verif-ms-XXXXXX)
rc=0
for s in $seeds; do for p in $props; do
  r=$(VERIF_SEED=$s VERIF_EVIDENCE_DIR=$out VERIF_REPLAY_DIR=$out /venv/bin/python "$(dirname "$0")/../run_check.py" $p --tier quick 2>&1); e=$?
  echo "seed=$s $p exit=$e $(echo "$r" | grep -v '^KNOWN' | tail -1 | cut -c1-150)"
  if [ $e -ne 0 ]; then rc=1; echo "$r" | grep -v '^KNOWN' | head -12 | cut -c1-600
    mkdir -p /tmp/scratch/ms_fail; cp "$out"/$p/${s}-*.json /tmp/scratch/ms_fail/ 2>/dev/null; fi
done; done
rm -rf "$out"
exit $rc
