#!/bin/bash
# all thorough tiers (or those named after the seed) under VERIF_SEED=${1:-1}, evidence to scratch
# usage: tools/thorough_seed.sh [seed [PROP ...]]
out=$(mktemp -d /tmp/verif-th-XXXXXX)
props="${@:2}"
for p in ${props:-C18 C11 C17 C07 C14}; do
  r=$(VERIF_SEED=${1:-1} VERIF_EVIDENCE_DIR=$out VERIF_REPLAY_DIR=$out /venv/bin/python run_check.py $p --tier thorough 2>&1); e=$?
  echo "seed=${1:-1} $p exit=$e $(echo "$r" | grep -v '^KNOWN' | tail -1 | cut -c1-160)"
  if [ $e -ne 0 ]; then
    echo "$r" | grep -v '^KNOWN' | head -20 | cut -c1-800
    mkdir -p /tmp/scratch/thorough_fail && cp -r $out/$p /tmp/scratch/thorough_fail/${1:-1}_$p 2>/dev/null   # keep the replay files
  fi
done
rm -rf $out
