#!/venv/bin/python
"""Re-run every stored seeded change (seeded/<id>/patch.diff) against the property's quick check and
expect exit 1 with a VIOLATION line.  Usage: tools/seeded.py [id-substring ...]"""
import glob
import json
import os
import shutil
import subprocess
import sys
import tempfile
import time

VERIF = os.path.dirname(os.path.dirname(os.path.abspath(__file__)))


def main():
    want = sys.argv[1:]
    rows = []
    for d in sorted(glob.glob(os.path.join(VERIF, "seeded", "*"))):
        sid = os.path.basename(d)
        if want and not any(w in sid for w in want):
            continue
        meta = json.load(open(os.path.join(d, "meta.json")))
        prop = meta["property"]
        wt = tempfile.mkdtemp(prefix="verif-seed-")
        os.rmdir(wt)
        scratch = tempfile.mkdtemp(prefix="verif-seed-out-")
        try:
            subprocess.run(["git", "-C", "/repo", "worktree", "add", "-q", "--detach", wt, "HEAD"], check=True)
            r = subprocess.run(["git", "-C", wt, "apply", os.path.join(d, "patch.diff")], capture_output=True, text=True)
            if r.returncode:
                rows.append((sid, prop, "PATCH-FAILED", 0, r.stderr.strip()[:120]))
                continue
            env = dict(os.environ, VERIF_REPO=wt, VERIF_EVIDENCE_DIR=scratch, VERIF_REPLAY_DIR=scratch)
            t0 = time.time()
            p = subprocess.run([sys.executable, os.path.join(VERIF, "run_check.py"), prop, "--tier", "quick"],
                               env=env, capture_output=True, text=True, cwd=VERIF)
            caught = p.returncode == 1 and "VIOLATION property=%s" % prop in p.stdout
            first = [ln for ln in p.stdout.splitlines() if ln.startswith("violation")][:1]
            if meta.get("expect") == "not-judged":
                # kept for the record: a change the property's wording does not decide (see its meta.json / DESIGN 10.2)
                verdict = "not-judged" if p.returncode == 0 else "UNEXPECTED(exit %d)" % p.returncode
            else:
                verdict = "caught" if caught else "MISSED(exit %d)" % p.returncode
            rows.append((sid, prop, verdict, time.time() - t0, (first or [""])[0][:130]))
        finally:
            subprocess.run(["git", "-C", "/repo", "worktree", "remove", "--force", wt], capture_output=True)
            shutil.rmtree(scratch, ignore_errors=True)
    for r in rows:
        print("%-36s %-4s %-16s %6.1fs  %s" % r)
    return 0 if all(r[2] in ("caught", "not-judged") for r in rows) else 1


if __name__ == "__main__":
    sys.exit(main())
