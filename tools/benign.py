#!/venv/bin/python
"""No-false-alarm self-test: apply each benign refactoring (benign/<props>_<name>.patch, where <props> is a
'_'-separated list such as c14_c07) to a scratch worktree, run the named properties' quick checks against it
and expect exit 0 (no VIOLATION).  Usage: tools/benign.py [name-substring ...]"""
import glob
import os
import re
import shutil
import subprocess
import sys
import tempfile

VERIF = os.path.dirname(os.path.dirname(os.path.abspath(__file__)))


def main():
    rows = []
    for patch in sorted(glob.glob(os.path.join(VERIF, "benign", "*.patch"))):
        name = os.path.basename(patch)[:-6]
        if sys.argv[1:] and not any(a in name for a in sys.argv[1:]):
            continue
        props = [p.upper() for p in re.findall(r"c\d\d", name.split("_" + name.split("_")[-1])[0]) or []]
        props = [p.upper() for p in name.split("_") if re.fullmatch(r"c\d\d", p)]
        wt = tempfile.mkdtemp(prefix="verif-ben-")
        os.rmdir(wt)
        scratch = tempfile.mkdtemp(prefix="verif-ben-out-")
        try:
            subprocess.run(["git", "-C", "/repo", "worktree", "add", "-q", "--detach", wt, "HEAD"], check=True)
            r = subprocess.run(["git", "-C", wt, "apply", patch], capture_output=True, text=True)
            if r.returncode:
                rows.append((name, "-", "PATCH-FAILED", r.stderr.strip()[:100]))
                continue
            tp = subprocess.run([sys.executable, "-m", "pytest", "-q", "-p", "no:cacheprovider", "-x", "tests"], cwd=wt,
                                capture_output=True, text=True, env=dict(os.environ, PYTHONPATH=wt))
            tests = (tp.stdout.strip().splitlines() or ["?"])[-1][:40]
            for prop in props:
                env = dict(os.environ, VERIF_REPO=wt, VERIF_EVIDENCE_DIR=scratch, VERIF_REPLAY_DIR=scratch)
                p = subprocess.run([sys.executable, os.path.join(VERIF, "run_check.py"), prop, "--tier", "quick"],
                                   env=env, capture_output=True, text=True, cwd=VERIF)
                last = [ln for ln in p.stdout.strip().splitlines() if not ln.startswith("KNOWN")][-1:]
                rows.append((name, prop, "quiet" if p.returncode == 0 else "ALARM(exit %d)" % p.returncode,
                             (last or [""])[0][:110] + " [tests: %s]" % tests))
        finally:
            subprocess.run(["git", "-C", "/repo", "worktree", "remove", "--force", wt], capture_output=True)
            shutil.rmtree(scratch, ignore_errors=True)
    for r in rows:
        print("%-38s %-4s %-16s %s" % r)
    return 0 if all(r[2] == "quiet" for r in rows) else 1


if __name__ == "__main__":
    sys.exit(main())
