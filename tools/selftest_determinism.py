#!/venv/bin/python
"""Large determinism self-test of the simulator (DESIGN.md 3.8).

For every claimed property and every batch: run N seeds twice in the process tree at two
worker counts (16 and 3), and a sample of them in fresh interpreters under two other
PYTHONHASHSEED values; all event-log digests must agree.  A mismatch that is reproducible
per hash seed would point at the code under test (C14's business); anything else is
harness nondeterminism.  Usage: tools/selftest_determinism.py [N=200] [PROP ...]
"""
import importlib
import json
import os
import subprocess
import sys
import time

VERIF = os.path.dirname(os.path.dirname(os.path.abspath(__file__)))
sys.path.insert(0, VERIF)
sys.path.insert(0, os.environ.get("VERIF_REPO", "/repo"))


def main():
    args = sys.argv[1:]
    n = int(args[0]) if args and args[0].isdigit() else 200
    props = [a.upper() for a in args if not a.isdigit()] or ["C07", "C11", "C14", "C17", "C18"]
    from sim import driver, pool
    bad = 0
    for prop in props:
        check = importlib.import_module("checks.%s" % prop.lower())
        ctx = check.prepare("quick", 0) if hasattr(check, "prepare") else None
        try:
            for b in check.batches("quick"):
                if b["name"] in ("config", "seeds"):
                    n_b = min(n, 12)      # real subprocess batches: a few are enough
                else:
                    n_b = n
                fn = driver.make_runner(check, b["name"], 0, ctx)
                t0 = time.time()
                r1 = dict(pool.run_batch(fn, range(n_b), workers=16, budget_s=1800, per_run_timeout=300))
                r2 = dict(pool.run_batch(fn, range(n_b), workers=3, budget_s=3600, per_run_timeout=300))
                mism = [i for i in range(n_b) if r1[i].get("digest") != r2[i].get("digest") or "harness" in r1[i]]
                fresh = {}
                sample = list(range(0, n_b, max(1, n_b // 8)))[:8]
                for hs in ("1", "987654321"):
                    env = dict(os.environ, PYTHONHASHSEED=hs, VERIF_NO_REEXEC="1", VERIF_SEED="0")
                    p = subprocess.run([sys.executable, os.path.join(VERIF, "run_check.py"), prop, "--digests",
                                        b["name"], ",".join(map(str, sample))], env=env, capture_output=True,
                                       text=True, cwd=VERIF, timeout=3600)
                    d = json.loads(p.stdout.strip().splitlines()[-1]) if p.returncode == 0 else {}
                    fresh[hs] = [i for i in sample if d.get(str(i)) != r1[i].get("digest")]
                ok = not mism and not any(fresh.values())
                bad += 0 if ok else 1
                print("%s/%-9s %4d seeds x2 (16 and 3 workers): %d mismatches; fresh interpreters (hash seeds 1, "
                      "987654321; %d seeds each): %s  [%.0fs]  %s" %
                      (prop, b["name"], n_b, len(mism), len(sample), {k: len(v) for k, v in fresh.items()},
                       time.time() - t0, "OK" if ok else "MISMATCH %s %s" % (mism[:5], fresh)))
        finally:
            if ctx is not None and hasattr(check, "cleanup"):
                check.cleanup(ctx)
    return 1 if bad else 0


if __name__ == "__main__":
    os.environ.setdefault("PYTHONHASHSEED", "0")
    sys.exit(main())
