"""Process plumbing: zygote workers, one forked child per simulated run.

The parent imports everything (gtwrap from /repo's working tree, pyparsing, the
harness) once.  It then forks W workers.  A worker never executes a scenario in
its own address space: for every run index it forks a child, the child executes
the run and sends back one pickled result, and exits.  Hence no run can inherit
Python-level state from an earlier run -- the "pristine process" the C14 oracle
refers to is simply "a fresh fork of the zygote".

Results are returned in run-index order, never completion order.
"""
import os
import pickle
import select
import shutil
import signal
import struct
import sys
import tempfile
import time
import traceback


class HarnessError(Exception):
    pass


def run_isolated(fn, arg, timeout=120.0):
    """Run fn(arg) in a forked child; return its result.  A hang or a crash of the
    child is reported as {'harness': ...} -- never as a property verdict."""
    r, w = os.pipe()
    sys.stdout.flush()
    sys.stderr.flush()
    pid = os.fork()
    if pid == 0:
        os.close(r)
        code = 0
        try:
            try:
                res = fn(arg)
            except BaseException:
                res = {"harness": "exception", "trace": traceback.format_exc()[-4000:]}
                code = 3
            data = pickle.dumps(res, protocol=4)
            view = memoryview(struct.pack(">Q", len(data)) + data)
            while view:
                n = os.write(w, view)
                view = view[n:]
        except BaseException:
            code = 4
        finally:
            os._exit(code)
    os.close(w)
    buf = bytearray()
    deadline = time.time() + timeout
    timed_out = False
    try:
        while True:
            left = deadline - time.time()
            if left <= 0:
                timed_out = True
                break
            rl, _, _ = select.select([r], [], [], min(left, 5.0))
            if not rl:
                continue
            chunk = os.read(r, 1 << 20)
            if not chunk:
                break
            buf += chunk
    finally:
        os.close(r)
        if timed_out:
            try:
                os.kill(pid, signal.SIGKILL)
            except OSError:
                pass
        try:
            os.waitpid(pid, 0)
        except OSError:
            pass
    if timed_out:
        return {"harness": "timeout", "arg": repr(arg)[:200]}
    if len(buf) < 8:
        return {"harness": "child-died", "arg": repr(arg)[:200]}
    (n,) = struct.unpack(">Q", bytes(buf[:8]))
    if len(buf) - 8 != n:
        return {"harness": "short-result", "arg": repr(arg)[:200]}
    return pickle.loads(bytes(buf[8:]))


def _worker(k, nworkers, fn, indices, deadline, per_run_timeout, outpath):
    with open(outpath, "wb") as out:
        for pos in range(k, len(indices), nworkers):
            if time.time() >= deadline:
                break
            idx = indices[pos]
            res = run_isolated(fn, idx, per_run_timeout)
            pickle.dump((idx, res), out, protocol=4)
            out.flush()


def run_batch(fn, indices, workers=16, budget_s=60.0, per_run_timeout=120.0,
              hard_cap_s=None):
    """Execute fn(i) for i in indices, each in its own forked child, spread over
    `workers` zygote workers.  Stops handing out new runs when budget_s is used up.
    Returns [(index, result)] sorted by index (only the runs that were executed)."""
    indices = list(indices)
    if not indices:
        return []
    workers = max(1, min(workers, len(indices)))
    tmp = tempfile.mkdtemp(prefix="verif-pool-")
    start = time.time()
    deadline = start + budget_s
    hard = start + (hard_cap_s if hard_cap_s else budget_s + per_run_timeout + 60.0)
    pids = []
    try:
        sys.stdout.flush()
        sys.stderr.flush()
        for k in range(workers):
            pid = os.fork()
            if pid == 0:
                code = 0
                try:
                    _worker(k, workers, fn, indices, deadline, per_run_timeout,
                            os.path.join(tmp, "w%d.pkl" % k))
                except BaseException:
                    traceback.print_exc()
                    code = 5
                finally:
                    os._exit(code)
            pids.append(pid)
        alive = set(pids)
        bad = []
        while alive:
            for pid in list(alive):
                p, status = os.waitpid(pid, os.WNOHANG)
                if p:
                    alive.discard(pid)
                    if status != 0:
                        bad.append(status)
            if alive:
                if time.time() > hard:
                    for pid in alive:
                        try:
                            os.kill(pid, signal.SIGKILL)
                        except OSError:
                            pass
                    for pid in alive:
                        try:
                            os.waitpid(pid, 0)
                        except OSError:
                            pass
                    raise HarnessError("HARNESS-TIMEOUT: batch exceeded hard wall cap")
                time.sleep(0.02)
        if bad:
            raise HarnessError("HARNESS-ERROR: pool worker exited with status %r" % bad)
        results = []
        for k in range(workers):
            path = os.path.join(tmp, "w%d.pkl" % k)
            if not os.path.exists(path):
                continue
            with open(path, "rb") as f:
                while True:
                    try:
                        results.append(pickle.load(f))
                    except EOFError:
                        break
        results.sort(key=lambda t: t[0])
        return results
    finally:
        shutil.rmtree(tmp, ignore_errors=True)
