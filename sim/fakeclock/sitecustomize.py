"""Loaded by the subprocesses of C14's configuration batch (this directory is put on their PYTHONPATH).
With VERIF_FAKE_CLOCK_SHIFT=<seconds> in the environment the process sees a wall clock shifted by that much:
time.time()/time_ns(), the no-argument forms of localtime/gmtime/ctime/asctime/strftime, and
datetime.datetime.now()/utcnow()/today(), datetime.date.today().  Without the variable nothing is touched."""
import os

_shift = os.environ.get("VERIF_FAKE_CLOCK_SHIFT")
if _shift:
    import datetime as _dt
    import time as _time

    _S = float(_shift)
    _real = {n: getattr(_time, n) for n in ("time", "time_ns", "localtime", "gmtime", "ctime", "asctime", "strftime")}

    def _now():
        return _real["time"]() + _S

    _time.time = _now
    _time.time_ns = lambda: _real["time_ns"]() + int(_S * 1e9)

    def _wrap(name):
        real = _real[name]

        def f(*a):
            if name in ("localtime", "gmtime", "ctime") and (not a or a[0] is None):
                return real(_now())
            if name == "asctime" and not a:
                return real(_real["localtime"](_now()))
            if name == "strftime" and len(a) == 1:
                return real(a[0], _real["localtime"](_now()))
            return real(*a)
        f.__name__ = name
        return f
    for _n in ("localtime", "gmtime", "ctime", "asctime", "strftime"):
        setattr(_time, _n, _wrap(_n))

    _rdt, _rd = _dt.datetime, _dt.date

    class datetime(_rdt):
        @classmethod
        def now(cls, tz=None):
            return cls.fromtimestamp(_now(), tz)

        @classmethod
        def utcnow(cls):
            return cls.utcfromtimestamp(_now())

        @classmethod
        def today(cls):
            return cls.fromtimestamp(_now())

    class date(_rd):
        @classmethod
        def today(cls):
            return cls.fromtimestamp(_now())

    for _c in (datetime, date):
        _c.__module__ = "datetime"
        _c.__qualname__ = _c.__name__
    _dt.datetime, _dt.date = datetime, date
