"""Choice tape: the single source of every decision in a simulated run.

Search mode : backed by random.Random(seed) (Mersenne Twister; independent of
              PYTHONHASHSEED); every decision is appended to `record`.
Replay mode : decisions are read back from a recorded list; an exhausted tape or
              an out-of-range value yields 0.

Convention everywhere: 0 is the simplest choice (no fault, no context switch,
first alternative, smallest size, empty list).  That is what lets one generic
minimiser (sim/minimise.py) shrink operations, faults and schedules alike.

Nothing in here reads a clock, and logging never draws from the tape.
"""
import hashlib
import random


def derive_seed(base_seed, prop, run_index):
    h = hashlib.sha256(("%d|%s|%d" % (base_seed, prop, run_index)).encode()).digest()
    return int.from_bytes(h[:8], "big")


class Tape:
    def __init__(self, seed=None, replay=None):
        self.replaying = replay is not None
        self._replay = list(replay) if replay is not None else None
        self._rng = random.Random(seed) if replay is None else None
        self.pos = 0
        self.record = []      # decisions actually taken (ints)
        self.labels = []      # parallel list of (label, n) for decoding / debugging

    # -- the only primitive ------------------------------------------------
    def _draw(self, n, label, weights=None):
        if n <= 1:
            return 0
        if self.replaying:
            v = self._replay[self.pos] if self.pos < len(self._replay) else 0
            if not isinstance(v, int) or v < 0 or v >= n:
                v = 0
        else:
            if weights is None:
                v = self._rng.randrange(n)
            else:
                tot = float(sum(weights))
                x = self._rng.random() * tot
                acc = 0.0
                v = n - 1
                for i, w in enumerate(weights):
                    acc += w
                    if x < acc:
                        v = i
                        break
        self.pos += 1
        self.record.append(v)
        self.labels.append((label, n))
        return v

    def choose(self, n, label=""):
        """uniform int in [0, n)"""
        return self._draw(n, label)

    def weighted(self, weights, label=""):
        """index drawn with the given weights; index 0 must be the simplest"""
        return self._draw(len(weights), label, weights)

    def bool(self, p, label=""):
        """True with probability p (False is the simple choice)"""
        return self._draw(2, label, (1.0 - p, p)) == 1

    def pick(self, seq, label=""):
        return seq[self._draw(len(seq), label)]

    def wpick(self, pairs, label=""):
        """pairs = [(item, weight), ...]; first item is the simplest"""
        return pairs[self._draw(len(pairs), label, [w for _, w in pairs])][0]

    def int_between(self, lo, hi, label=""):
        """int in [lo, hi], lo is simplest"""
        return lo + self._draw(hi - lo + 1, label)

    def small(self, hi, label="", p=0.5):
        """geometric-ish small int in [0, hi], biased to small values"""
        weights = [p ** i for i in range(hi + 1)]
        return self._draw(hi + 1, label, weights)

    def sub(self, seq, p, label=""):
        """random subset (order kept)"""
        return [x for x in seq if self.bool(p, label)]

    def shuffle(self, seq, label=""):
        """Fisher-Yates through the tape (identity permutation when all draws are 0)"""
        seq = list(seq)
        out = []
        while seq:
            out.append(seq.pop(self._draw(len(seq), label)))
        return out
