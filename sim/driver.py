"""Common check driver.

A check module provides:
    PROP                      property id
    batches(tier) -> [ {name, runs, budget_s, per_run_timeout} ]
    run_one(batch_name, tape, ctx) -> result dict:
        {"violations": [ {"sig": str, "inv": str, "detail": str} ... ],
         "digest": str, "nontrivial": bool, "stats": {counter: int}, "faults": {...},
         "probes": {...}, "steps": int, "sample": <json-able decoded scenario>}
    prepare(tier, seed) -> ctx      (optional; runs once in the parent before forking,
                                     e.g. to compile a driver; ctx must be fork-safe)
    cleanup(ctx)                    (optional)
    describe() -> dict with 'rule', 'real_vs_stub', 'assumptions'

The driver derives one tape per (VERIF_SEED, property, batch, run index), executes
runs in forked children of zygote workers, merges results in index order, and for
every violation whose signature is not a listed known finding: minimises the tape,
writes a replay file, confirms it in a *fresh interpreter*, and prints
    VIOLATION property=<id> replay=<path>
Exit codes: 0 held, 1 violation, 2 harness error / timeout (never a verdict).
"""
import hashlib
import json
import os
import subprocess
import sys
import time
import traceback

from . import pool
from .minimise import minimise
from .tape import Tape, derive_seed

VERIF = os.path.dirname(os.path.dirname(os.path.abspath(__file__)))
KNOWN_FILE = os.path.join(VERIF, "known_findings.txt")


# ---------------------------------------------------------------------------
def load_known(prop):
    """known_findings.txt lines:
         finding: property=<id> sig=<signature-prefix> :: <what fails>
         fixed: property=<id> <commit> <what failed>
       Only 'finding:' lines suppress; 'fixed:' lines suppress nothing."""
    out = []
    if not os.path.exists(KNOWN_FILE):
        return out
    for line in open(KNOWN_FILE, encoding="utf-8"):
        line = line.strip()
        if not line.startswith("finding:"):
            continue
        body = line[len("finding:"):].strip()
        head, _, what = body.partition("::")
        fields = dict(f.split("=", 1) for f in head.split() if "=" in f)
        if fields.get("property") == prop and "sig" in fields:
            out.append({"sig": fields["sig"], "what": what.strip()})
    return out


def known_match(known, sig):
    for k in known:
        if sig == k["sig"] or sig.startswith(k["sig"]):
            return k
    return None


# ---------------------------------------------------------------------------
def _exec_run(check, batch_name, seed_or_values, ctx, replay=False):
    tape = Tape(replay=seed_or_values) if replay else Tape(seed=seed_or_values)
    t0 = time.time()
    res = check.run_one(batch_name, tape, ctx)
    res["tape"] = list(tape.record)
    res["wall"] = time.time() - t0
    return res


def make_runner(check, batch_name, base_seed, ctx):
    def fn(index):
        seed = derive_seed(base_seed, check.PROP + "/" + batch_name, index)
        return _exec_run(check, batch_name, seed, ctx)
    return fn


def make_replayer(check, batch_name, ctx):
    def fn(values):
        return _exec_run(check, batch_name, values, ctx, replay=True)
    return fn


def sig_of(res, want=None):
    """first violation signature of a result (or the wanted one if present)"""
    vs = res.get("violations") or []
    if want is not None:
        for v in vs:
            if v["sig"] == want:
                return want
    return vs[0]["sig"] if vs else None


# ---------------------------------------------------------------------------
def write_evidence(prop, tier, seed, coverage, wall, violations, assumptions):
    evdir = os.environ.get("VERIF_EVIDENCE_DIR") or os.path.join(VERIF, "evidence")
    os.makedirs(evdir, exist_ok=True)
    ev = {
        "property_id": prop, "tier": tier, "seed": seed, "level": "exploration",
        "coverage": coverage, "assumptions": assumptions,
        "wall_s": round(wall, 2), "violations": violations,
    }
    path = os.path.join(evdir, "%s.json" % prop)
    tmp = path + ".tmp"
    with open(tmp, "w", encoding="utf-8") as f:
        json.dump(ev, f, indent=1, ensure_ascii=False, sort_keys=True)
    os.replace(tmp, path)
    return path


def _merge(dst, src):
    for k, v in (src or {}).items():
        dst[k] = dst.get(k, 0) + v


def determinism_selftest(check, batches, base_seed, ctx, n=6, tier="quick"):
    """Run the first n indices of the first batch twice in-process-tree and once in
    a fresh interpreter under another PYTHONHASHSEED; digests must agree."""
    b = batches[0]
    fn = make_runner(check, b["name"], base_seed, ctx)
    idx = list(range(n))
    first = pool.run_batch(fn, idx, workers=min(n, 8), budget_s=300, per_run_timeout=b.get("per_run_timeout", 120))
    second = pool.run_batch(fn, idx, workers=max(1, min(n, 8) // 2), budget_s=300, per_run_timeout=b.get("per_run_timeout", 120))
    d1 = {i: r.get("digest") for i, r in first}
    d2 = {i: r.get("digest") for i, r in second}
    for i, r in first + second:
        if "harness" in r:
            raise pool.HarnessError("HARNESS-ERROR in determinism self-test: %r" % (r,))
    mism = [i for i in idx if d1.get(i) != d2.get(i)]
    fresh_ok = None
    hashseed_dependent = False
    if getattr(check, "FRESH_DIGEST_OK", True):
        env = dict(os.environ)
        env["PYTHONHASHSEED"] = "12345"
        env["VERIF_NO_REEXEC"] = "1"
        env["VERIF_SEED"] = str(base_seed)
        env["VERIF_TIER"] = tier            # (checks that prepare per-tier state, e.g. C11's program set)
        cmd = [sys.executable, os.path.join(VERIF, "run_check.py"), check.PROP, "--digests",
               b["name"], ",".join(map(str, idx[:3]))]
        p = subprocess.run(cmd, env=env, capture_output=True, text=True, timeout=600, cwd=VERIF)
        if p.returncode != 0:
            raise pool.HarnessError("HARNESS-ERROR: fresh-interpreter digest run failed: %s" %
                                    (p.stderr[-2000:],))
        d3 = json.loads(p.stdout.strip().splitlines()[-1])
        fresh_ok = all(d3.get(str(i)) == d1.get(i) for i in idx[:3])
        if not fresh_ok:
            # harness or code under test?  repeat in a fresh interpreter under the harness's own hash seed
            env["PYTHONHASHSEED"] = os.environ.get("PYTHONHASHSEED", "0")
            p2 = subprocess.run(cmd, env=env, capture_output=True, text=True, timeout=600, cwd=VERIF)
            d4 = json.loads(p2.stdout.strip().splitlines()[-1]) if p2.returncode == 0 else {}
            if all(d4.get(str(i)) == d1.get(i) for i in idx[:3]):
                hashseed_dependent = True     # reproducible per hash seed: the code under test depends on it
            else:
                mism.append("fresh-interpreter")
    return {"seeds_double_run": n, "fresh_interpreter_other_hashseed": 3 if fresh_ok is not None else 0,
            "mismatches": mism, "results_depend_on_PYTHONHASHSEED": hashseed_dependent}


def print_digests(check, batch_name, indices, base_seed):
    ctx = check.prepare(os.environ.get("VERIF_TIER", "quick"), base_seed) if hasattr(check, "prepare") else None
    try:
        fn = make_runner(check, batch_name, base_seed, ctx)
        out = {}
        for i in indices:
            r = pool.run_isolated(fn, i, 300)
            out[str(i)] = r.get("digest")
        print(json.dumps(out))
    finally:
        if hasattr(check, "cleanup"):
            check.cleanup(ctx)


# ---------------------------------------------------------------------------
def replay_file(check, path):
    """Re-execute a replay file in this (fresh) interpreter."""
    rp = json.load(open(path, encoding="utf-8"))
    if rp.get("kind") == "timeout":
        ctx = check.prepare(rp.get("tier", "quick"), rp.get("base_seed", 0)) if hasattr(check, "prepare") else None
        try:
            fn = make_runner(check, rp["batch"], rp.get("base_seed", 0), ctx)
            res = pool.run_isolated(fn, rp["run_index"], rp.get("limit_s", 300))
        finally:
            if hasattr(check, "cleanup"):
                check.cleanup(ctx)
        if res.get("harness") == "timeout":
            print("replay: signature reproduced (no result after %d s), digest equal" % rp.get("limit_s", 300))
            print("VIOLATION property=%s replay=%s" % (check.PROP, path))
            return 1
        print("replay: signature NOT reproduced (the run finished)")
        return 0
    if rp.get("kind") == "rerun-differs":
        ctx = check.prepare(rp.get("tier", "quick"), rp.get("base_seed", 0)) if hasattr(check, "prepare") else None
        try:
            fn = make_runner(check, rp["batch"], rp.get("base_seed", 0), ctx)
            digs = [pool.run_isolated(fn, rp["run_index"], 600).get("digest") for _ in range(4)]
        finally:
            if hasattr(check, "cleanup"):
                check.cleanup(ctx)
        if len(set(digs)) > 1:
            print("replay: signature reproduced (4 executions of run %d gave %d different results), digest equal"
                  % (rp["run_index"], len(set(digs))))
            print("  K0: %s" % rp["violation"]["detail"])
            print("VIOLATION property=%s replay=%s" % (check.PROP, path))
            return 1
        print("replay: signature NOT reproduced (4 executions agree)")
        return 0
    ctx = check.prepare(rp.get("tier", "quick"), rp.get("base_seed", 0)) if hasattr(check, "prepare") else None
    try:
        fn = make_replayer(check, rp["batch"], ctx)
        res = pool.run_isolated(fn, rp["tape"], 600)
    finally:
        if hasattr(check, "cleanup"):
            check.cleanup(ctx)
    if "harness" in res:
        print("HARNESS-ERROR during replay: %r" % (res,))
        return 2
    sig = sig_of(res, rp["violation"]["sig"])
    same = sig == rp["violation"]["sig"]
    print("replay: signature %s, digest %s" % ("reproduced" if same else "NOT reproduced (%r)" % sig,
                                                "equal" if res.get("digest") == rp.get("digest") else "differs"))
    if same:
        for v in res["violations"]:
            if v["sig"] == sig:
                print("  %s: %s" % (v["inv"], v["detail"][:600]))
                break
        print("VIOLATION property=%s replay=%s" % (check.PROP, path))
        return 1
    return 0


def confirm_fresh(check, path):
    env = dict(os.environ)
    env["PYTHONHASHSEED"] = "777"
    env["VERIF_NO_REEXEC"] = "1"
    cmd = [sys.executable, os.path.join(VERIF, "run_check.py"), check.PROP, "--replay", path]
    p = subprocess.run(cmd, env=env, capture_output=True, text=True, timeout=900, cwd=VERIF)
    ok = p.returncode == 1 and "signature reproduced" in p.stdout
    digest_equal = "digest equal" in p.stdout
    return ok, digest_equal, p.stdout[-1500:] + p.stderr[-1500:]


# ---------------------------------------------------------------------------
def main(check, tier, base_seed):
    t_start = time.time()
    prop = check.PROP
    known = load_known(prop)
    ctx = None
    exit_code = 0
    try:
        ctx = check.prepare(tier, base_seed) if hasattr(check, "prepare") else None
        batches = check.batches(tier)
        workers = int(os.environ.get("VERIF_WORKERS", "16"))

        selftest = determinism_selftest(check, batches, base_seed, ctx,
                                        n=6 if tier == "quick" else 16, tier=tier)
        if selftest["mismatches"]:
            if getattr(check, "NONDETERMINISM_IS_VIOLATION", False):
                # for a property that says "same inputs => same bytes", two executions of one seed that differ
                # are the violation itself (every source of nondeterminism a task can consult -- pid, clock,
                # urandom, temp names, scheduling -- is simulated, and the harness is verified deterministic
                # on the unchanged tree)
                idx = [i for i in selftest["mismatches"] if isinstance(i, int)]
                i = idx[0] if idx else 0
                rdir = os.path.join(os.environ.get("VERIF_REPLAY_DIR") or os.path.join(VERIF, "replays"), prop)
                os.makedirs(rdir, exist_ok=True)
                rpath = os.path.join(rdir, "%d-%s-%d-rerun.json" % (base_seed, batches[0]["name"], i))
                with open(rpath, "w", encoding="utf-8") as f:
                    json.dump({"property": prop, "kind": "rerun-differs", "base_seed": base_seed, "tier": tier,
                               "batch": batches[0]["name"], "run_index": i,
                               "violation": {"inv": "K0", "sig": "K0:same-seed-two-executions-differ",
                                             "detail": "run %d of batch %s gives different event logs / outputs when "
                                                       "executed twice" % (i, batches[0]["name"])}}, f, indent=1)
                if replay_file(check, rpath) == 1:
                    return 1
            print("HARNESS-ERROR nondeterminism: %r" % (selftest["mismatches"],))
            return 2
        if selftest.get("results_depend_on_PYTHONHASHSEED"):
            print("note: the simulated runs are reproducible per hash seed but differ between PYTHONHASHSEED "
                  "values -- the code under test depends on the hash seed (judged by C14's `seeds` batch)")

        tot = {"evaluations": 0, "stats": {}, "faults": {}, "probes": {}, "steps_total": 0,
               "steps_max": 0, "digests": set(), "nontrivial_digests": set(), "samples": [],
               "batches": {}, "interleavings": set(), "states": set()}
        found = []      # (batch, index, result, violation)
        harness_problems = []
        for b in batches:
            fn = make_runner(check, b["name"], base_seed, ctx)
            t0 = time.time()
            results = pool.run_batch(fn, range(b["runs"]), workers=workers,
                                     budget_s=b["budget_s"],
                                     per_run_timeout=b.get("per_run_timeout", 120))
            bw = time.time() - t0
            nb = 0
            for idx, r in results:
                if "harness" in r:
                    harness_problems.append((b["name"], idx, r))
                    continue
                nb += 1
                tot["evaluations"] += 1
                _merge(tot["stats"], r.get("stats"))
                _merge(tot["faults"], r.get("faults"))
                _merge(tot["probes"], r.get("probes"))
                tot["steps_total"] += r.get("steps", 0)
                tot["steps_max"] = max(tot["steps_max"], r.get("steps", 0))
                tot["digests"].add(r.get("digest"))
                if r.get("nontrivial"):
                    tot["nontrivial_digests"].add(r.get("digest"))
                if r.get("interleaving"):
                    tot["interleavings"].add(r["interleaving"])
                for s in r.get("state_fps", ()):
                    tot["states"].add(s)
                if len(tot["samples"]) < 4 and r.get("sample") is not None and \
                        (r.get("nontrivial") or idx < 2):
                    tot["samples"].append({"batch": b["name"], "run": idx, "scenario": r["sample"]})
                for v in r.get("violations") or []:
                    found.append((b["name"], idx, r, v))
            tot["batches"][b["name"]] = {"runs_requested": b["runs"], "runs_executed": nb,
                                         "wall_s": round(bw, 1)}

        # a run that does not come back: for a property that promises termination this is the violation
        # itself -- but only if it reproduces alone, with a far longer limit, on an otherwise idle pool
        timeout_viol = 0
        if getattr(check, "TIMEOUT_IS_VIOLATION", False):
            keep = []
            for bname, idx, r in harness_problems:
                if r.get("harness") != "timeout" or timeout_viol >= 2:
                    keep.append((bname, idx, r))
                    continue
                fn = make_runner(check, bname, base_seed, ctx)
                again = pool.run_isolated(fn, idx, check.TIMEOUT_CONFIRM_S)
                if again.get("harness") == "timeout":
                    rdir = os.path.join(os.environ.get("VERIF_REPLAY_DIR") or os.path.join(VERIF, "replays"), prop)
                    os.makedirs(rdir, exist_ok=True)
                    rpath = os.path.join(rdir, "%d-%s-%d-timeout.json" % (base_seed, bname, idx))
                    with open(rpath, "w", encoding="utf-8") as f:
                        json.dump({"property": prop, "kind": "timeout", "base_seed": base_seed, "tier": tier,
                                   "batch": bname, "run_index": idx, "limit_s": check.TIMEOUT_CONFIRM_S,
                                   "violation": {"inv": "O5", "sig": "O5:%s:does-not-terminate" % bname,
                                                 "detail": "run %d of batch %s did not finish within %d s of wall time, "
                                                           "twice (typical runs take well under a second)" %
                                                           (idx, bname, check.TIMEOUT_CONFIRM_S)}}, f, indent=1)
                    print("violation O5: run %d of batch %s does not terminate (no result after %d s, confirmed alone)"
                          % (idx, bname, check.TIMEOUT_CONFIRM_S))
                    print("VIOLATION property=%s replay=%s" % (prop, rpath))
                    timeout_viol += 1
                elif "harness" in again:
                    keep.append((bname, idx, again))
            if timeout_viol:
                # further runs that hit the wall limit are instances of the confirmed non-termination
                keep = [k for k in keep if k[2].get("harness") != "timeout"]
                exit_code = 1
            harness_problems = keep
        if harness_problems:
            for hp in harness_problems[:5]:
                print("HARNESS-ERROR batch=%s run=%d: %s" % (hp[0], hp[1], json.dumps(hp[2])[:1500]))
            return 2

        # ---- violations --------------------------------------------------------
        reported = {}
        known_hit = {}
        for bname, idx, r, v in found:
            k = known_match(known, v["sig"])
            if k is not None:
                known_hit.setdefault(k["sig"], [k, 0, v])
                known_hit[k["sig"]][1] += 1
                continue
            reported.setdefault(v["sig"], (bname, idx, r, v))
        for sig, (k, n, v) in sorted(known_hit.items()):
            print("KNOWN-FINDING: property=%s %s [sig=%s; reproduced in %d runs; e.g. %s]" %
                  (prop, k["what"], sig, n, v["detail"][:200].replace("\n", " ")))
        # listed findings that did not show up in the search are replayed from their pinned file
        for k in known:
            if k["sig"] in known_hit:
                continue
            pinned = os.path.join(VERIF, "replays", prop, "known-%s.json" %
                                  hashlib.sha256(k["sig"].encode()).hexdigest()[:10])
            if os.path.exists(pinned):
                rp = json.load(open(pinned, encoding="utf-8"))
                res = pool.run_isolated(make_replayer(check, rp["batch"], ctx), rp["tape"], 600)
                if sig_of(res, rp["violation"]["sig"]) == rp["violation"]["sig"]:
                    print("KNOWN-FINDING: property=%s %s [sig=%s; reproduced from pinned replay]" %
                          (prop, k["what"], k["sig"]))
                    known_hit[k["sig"]] = [k, 1, rp["violation"]]

        nviol = 0
        max_report = 3
        for sig, (bname, idx, r, v) in sorted(reported.items())[:max_report]:
            replayer = make_replayer(check, bname, ctx)

            def test_many(cands, _rp=replayer, _sig=sig):
                def fn(i):
                    return _rp(cands[i])
                out = pool.run_batch(fn, range(len(cands)), workers=workers, budget_s=600,
                                     per_run_timeout=300)
                got = {i: res for i, res in out}
                ans = []
                for i in range(len(cands)):
                    res = got.get(i)
                    if res is None or "harness" in res:
                        ans.append((None, None))
                    else:
                        ans.append((sig_of(res, _sig), res.get("tape")))
                return ans

            small, used = minimise(r["tape"], test_many, sig, max_s=60 if tier == "quick" else 150)
            final = pool.run_isolated(replayer, small, 300)
            if "harness" in final or sig_of(final, sig) != sig:
                small = r["tape"]
                final = pool.run_isolated(replayer, small, 300)
            if "harness" in final or sig_of(final, sig) != sig:
                print("HARNESS-ERROR: violation %s (batch %s run %d) does not reproduce from its own tape"
                      % (sig, bname, idx))
                exit_code = 2
                continue
            vv = [x for x in final["violations"] if x["sig"] == sig][0]
            rdir = os.path.join(os.environ.get("VERIF_REPLAY_DIR") or os.path.join(VERIF, "replays"), prop)
            os.makedirs(rdir, exist_ok=True)
            rpath = os.path.join(rdir, "%d-%s-%d-%s.json" %
                                 (base_seed, bname, idx, hashlib.sha256(sig.encode()).hexdigest()[:8]))
            with open(rpath, "w", encoding="utf-8") as f:
                json.dump({"property": prop, "base_seed": base_seed, "tier": tier, "batch": bname,
                           "run_index": idx, "tape": small, "tape_len_before": len(r["tape"]),
                           "minimiser_runs": used, "violation": vv, "digest": final.get("digest"),
                           "scenario": final.get("sample"), "trace": final.get("trace")},
                          f, indent=1, ensure_ascii=False)
            ok, deq, out = confirm_fresh(check, rpath)
            if not ok:
                print("HARNESS-ERROR: replay %s not confirmed in a fresh interpreter:\n%s" % (rpath, out))
                exit_code = 2
                continue
            nviol += 1
            print("violation %s: %s" % (vv["inv"], vv["detail"][:800]))
            print("  minimised tape %d -> %d draws (%d candidates evaluated); fresh-interpreter replay confirmed%s"
                  % (len(r["tape"]), len(small), used, "" if deq else " (event-log digest differs!)"))
            print("VIOLATION property=%s replay=%s" % (prop, rpath))
        if len(reported) > max_report:
            print("(%d further distinct violation signatures not minimised)" % (len(reported) - max_report))
        if nviol and exit_code == 0:
            exit_code = 1

        # ---- evidence --------------------------------------------------------
        wall = time.time() - t_start
        desc = check.describe()
        zero_probes = sorted(k for k in desc.get("probe_names", []) if not tot["probes"].get(k))
        if zero_probes and tier == "thorough":
            print("warning: reach probes at zero: %s" % ", ".join(zero_probes))
        coverage = {
            "evaluations": tot["evaluations"],
            "distinct_nontrivial": len(tot["nontrivial_digests"]),
            "rule": desc["rule"],
            "samples": tot["samples"] or [{"note": "no sample recorded"}],
            "runs_per_hour": int(tot["evaluations"] / max(wall, 1e-6) * 3600),
            "seeds": {"base_seed": base_seed, "derivation": "sha256(base|property/batch|run_index)",
                      "batches": tot["batches"]},
            "sim_steps_total": tot["steps_total"], "sim_steps_max": tot["steps_max"],
            "simulated_time_note": "simulated time = gates (simulated syscalls / history steps) "
                                   "executed; the code under test has no timers",
            "workers": workers,
            "faults_fired": dict(sorted(tot["faults"].items())),
            "distinct_event_logs": len(tot["digests"]),
            "distinct_interleavings": len(tot["interleavings"]),
            "distinct_interleavings_note": "C14: distinct (task, op) schedules; C11/C18: distinct operation-kind "
                                           "sequences; 0 where a run is a single task without a schedule",
            "distinct_states": len(tot["states"]),
            "distinct_states_note": "C14: build-directory fingerprints seen after a step; C11: (collector sizes, live "
                                    "objects by class, library-retained) after a step; C18: driver stat lines",
            "probes": dict(sorted(tot["probes"].items())),
            "probes_at_zero": zero_probes,
            "stats": dict(sorted(tot["stats"].items())),
            "real_vs_stub": desc.get("real_vs_stub", {}),
            "determinism_selftest": selftest,
            "known_findings_reproduced": sorted(known_hit),
            "side_observations": desc.get("side_observations", []),
        }
        write_evidence(prop, tier, base_seed, coverage, wall, nviol, desc.get("assumptions", []))
        print("%s %s: %d runs, %d distinct non-trivial, %d violations, %d known findings, %.1fs"
              % (prop, tier, tot["evaluations"], len(tot["nontrivial_digests"]), nviol,
                 len(known_hit), wall))
        # a batch that explored nothing (every run ended before the property could be exercised) must not read
        # as "held on everything explored": the check says when its own exploration was vacuous
        if exit_code == 0 and hasattr(check, "vacuous"):
            why = check.vacuous(dict(tot["stats"]), dict(tot["probes"]))
            if why:
                print("HARNESS-ERROR vacuous exploration: %s" % why)
                return 2
        return exit_code
    except pool.HarnessError as e:
        print(str(e))
        return 2
    except Exception:
        print("HARNESS-ERROR: %s" % traceback.format_exc())
        return 2
    finally:
        if ctx is not None and hasattr(check, "cleanup"):
            try:
                check.cleanup(ctx)
            except Exception:
                pass
