"""Simulated world: in-memory file system + baton-passing task scheduler + seams.

The code under test is real (gtwrap, scripts/*.py, pyparsing, xml.etree, CPython's
io stack).  What is simulated is everything below the system-call line:

  * builtins.open / io.open / os.stat / os.mkdir / ... are rebound (process-wide,
    in the forked child that executes one run) to functions that route every path
    under SIMROOT -- and every relative path used by a task, whose cwd is always
    under SIMROOT -- to the in-memory file system.  Paths outside SIMROOT pass
    through to the real OS but are *logged* when a task touches them (read
    confinement is checked on that log).
  * files opened for writing are CPython's own TextIOWrapper/BufferedWriter on top
    of a simulated raw device: what reached raw.write() is durable (it is in the
    page cache and survives a process kill); what still sits in Python-level
    buffers is lost when the task is crashed.  Torn outputs therefore arise with
    exactly the granularity they have in reality.
  * every simulated syscall is a *gate*: the calling task parks and the scheduler
    -- driven only by the choice tape -- decides who proceeds and whether the
    pending call fails (errno), is served altered bytes, or the task is killed.

Only one task thread ever runs at a time (baton passing), so the execution is a
pure function of the tape.
"""
import builtins
import errno
import hashlib
import io
import os
import random
import stat as statmod
import sys
import tempfile
import threading
import time

SIMROOT = "/simroot"

_real = {}          # name -> original function (filled by install_seams)
WORLD = None        # the active World (one per process / run)


class SimCrash(BaseException):
    """Raised inside a task at a gate: the process is killed here."""


class StepBudgetExceeded(BaseException):
    """Raised inside a task when the simulated-step budget is exhausted."""


class Unsupported(BaseException):
    """The code under test used an OS facility the simulator does not model on a
    simulated path.  Reported as a harness limitation (exit 2), never as a
    violation."""


# ---------------------------------------------------------------------------
# raw devices
# ---------------------------------------------------------------------------
class _HasFileno:
    """file objects on simulated files have a (simulated) descriptor too: os.fsync(f.fileno()), os.fstat(...)"""
    _alias_fd = None

    def fileno(self):
        if self.closed:
            raise ValueError("I/O operation on closed file")
        if self._alias_fd is None:
            w = self._w
            fd = w.next_fd
            w.next_fd += 1
            w.fds[fd] = {"path": self._path, "flags": 0, "raw": self, "inc": self._inc, "alias": True}
            self._alias_fd = fd
        return self._alias_fd

    def _drop_alias(self):
        if self._alias_fd is not None:
            self._w.fds.pop(self._alias_fd, None)
            self._alias_fd = None


class _RRaw(_HasFileno, io.RawIOBase):
    def __init__(self, world, inc, path, data, eio_after=None):
        super().__init__()
        self._w, self._inc, self._path = world, inc, path
        self._data, self._pos, self._eio = data, 0, eio_after
        self.name = path

    def readable(self):
        return True

    def seekable(self):
        return True

    def seek(self, off, whence=0):
        if whence == 0:
            self._pos = off
        elif whence == 1:
            self._pos += off
        else:
            self._pos = len(self._data) + off
        return self._pos

    def tell(self):
        return self._pos

    def readinto(self, b):
        limit = len(self._data) if self._eio is None else min(self._eio, len(self._data))
        n = min(len(b), limit - self._pos)
        if n <= 0:
            if self._eio is not None:
                self._w.count_fault("read-eio")
                raise OSError(errno.EIO, os.strerror(errno.EIO), self._path)
            return 0
        b[:n] = self._data[self._pos:self._pos + n]
        self._pos += n
        return n

    def close(self):
        if not self.closed:
            self._drop_alias()
            super().close()
            if not self._inc.dead:
                self._w.log_event(self._inc, "close-r", self._path, "ok", self._pos)


class _WRaw(_HasFileno, io.RawIOBase):
    def __init__(self, world, inc, path, append=False):
        super().__init__()
        self._w, self._inc, self._path = world, inc, path
        self.name = path
        self._n = 0

    def writable(self):
        return True

    def write(self, b):
        if self._inc.dead:
            return len(b)           # the process is gone: nothing reaches the device
        b = bytes(b)
        try:
            self._w.gate(self._inc, "write", self._path, nbytes=len(b))
        except SimCrash:
            # a kill during write(2): a tape-chosen page-aligned prefix may have landed
            k = self._w.torn_prefix(len(b))
            if k:
                self._w.files[self._path] = self._w.files.get(self._path, b"") + b[:k]
                self._w.note_mutation(self._inc, self._path)
            raise
        if self._path not in self._w.files:
            # unlinked while open: data goes nowhere visible
            return len(b)
        self._w.files[self._path] += b
        self._n += len(b)
        self._w.log_event(self._inc, "write", self._path, "ok", len(b))
        self._w.note_mutation(self._inc, self._path)
        return len(b)

    def close(self):
        if not self.closed:
            self._drop_alias()
            try:
                if not self._inc.dead:
                    self._w.gate(self._inc, "close", self._path, nbytes=self._n)
                    self._w.log_event(self._inc, "close-w", self._path, "ok", self._n)
            finally:
                super().close()


class _RWRaw(_HasFileno, io.RawIOBase):
    """read/write device for 'r+', 'w+', 'a+', 'x' opens: positioned writes straight into the file image"""

    def __init__(self, world, inc, path, append=False):
        super().__init__()
        self._w, self._inc, self._path, self._append = world, inc, path, append
        self._pos = len(world.files.get(path, b"")) if append else 0
        self.name = path
        self._n = 0

    def readable(self):
        return True

    def writable(self):
        return True

    def seekable(self):
        return True

    def seek(self, off, whence=0):
        size = len(self._w.files.get(self._path, b""))
        self._pos = off if whence == 0 else (self._pos + off if whence == 1 else size + off)
        return self._pos

    def tell(self):
        return self._pos

    def readinto(self, b):
        data = self._w.files.get(self._path, b"")
        n = max(0, min(len(b), len(data) - self._pos))
        b[:n] = data[self._pos:self._pos + n]
        self._pos += n
        return n

    def write(self, b):
        if self._inc.dead:
            return len(b)
        b = bytes(b)
        self._w.gate(self._inc, "write", self._path, nbytes=len(b))
        if self._path not in self._w.files:
            return len(b)
        data = self._w.files[self._path]
        if self._append:
            self._pos = len(data)
        if self._pos > len(data):
            data = data + b"\0" * (self._pos - len(data))
        self._w.files[self._path] = data[:self._pos] + b + data[self._pos + len(b):]
        self._pos += len(b)
        self._n += len(b)
        self._w.log_event(self._inc, "write", self._path, "ok", len(b))
        self._w.note_mutation(self._inc, self._path)
        return len(b)

    def truncate(self, size=None):
        if self._inc.dead:
            return 0
        size = self._pos if size is None else size
        self._w.gate(self._inc, "truncate", self._path, nbytes=size)
        if self._path in self._w.files:
            data = self._w.files[self._path]
            self._w.files[self._path] = data[:size] + b"\0" * max(0, size - len(data))
            self._w.log_event(self._inc, "truncate", self._path, "ok", size)
            self._w.note_mutation(self._inc, self._path)
        return size

    def close(self):
        if not self.closed:
            self._drop_alias()
            try:
                if not self._inc.dead:
                    self._w.gate(self._inc, "close", self._path, nbytes=self._n)
                    self._w.log_event(self._inc, "close-w", self._path, "ok", self._n)
            finally:
                super().close()


# ---------------------------------------------------------------------------
class Incarnation:
    """One life of a task (a task restarted after a crash gets a new one)."""

    def __init__(self, task, no):
        self.task, self.no, self.dead = task, no, False
        self.entropy = 0            # counter behind the simulated os.urandom / temp-file names


class Task:
    def __init__(self, name, fn, cwd=SIMROOT, argv=None, locale="utf-8", meta=None):
        self.name, self.fn = name, fn
        self.cwd, self.argv, self.locale = cwd, list(argv or [name]), locale
        self.meta = meta or {}
        self.inc = None
        self.thread = None
        self.sem = threading.Semaphore(0)
        self.state = "new"          # new | parked | running | done | failed | crashed
        self.pending = None         # (op, path, info)
        self.action = None
        self.result = None
        self.error = None           # (type name, message)
        self.exc = None
        self.steps = 0              # gates passed over all incarnations
        self.inc_steps = 0          # gates passed in the current incarnation
        self.incarnations = 0
        self.crashes = 0


class World:
    def __init__(self, tape, fault_plan=None, max_steps=20000):
        self.tape = tape
        self.files = {}             # abs path -> bytes
        self.modes = {}             # abs path -> permission bits set by chmod (default 0644 / 0755)
        self.links = {}             # abs path -> symlink target (absolute, or relative to the link's directory)
        self.dirs = {SIMROOT}
        self.log = []               # (step, task, inc, op, path, result, n)
        self.step = 0
        self.epoch = EPOCH
        self.max_steps = max_steps
        self.tasks = []
        self.current = None         # Incarnation currently holding the baton
        self.sched_sem = threading.Semaphore(0)
        self.fault_plan = fault_plan
        self.faults_fired = {}
        self.probes = {}
        self.observers = []         # callables(world, event) run after each op
        self.violations = []        # filled by observers / checks
        self.schedule = []          # (task, op, pathclass) per step, for decoding
        self.switches = 0
        self.virtual_real = {}      # real abs path -> bytes served if the real file is absent
        self.mutation_hook = None
        self.parse_steps = 0
        self.parse_step_budget = None
        self.unsupported = None
        self.fds = {}               # simulated file descriptors (os.open on simulated paths)
        self.next_fd = 1000000
        self.hot = False
        self.hot_path = None
        self.chase = None           # race-directed scheduling state (see run())

    # -- bookkeeping -------------------------------------------------------
    def count_fault(self, kind, n=1):
        self.faults_fired[kind] = self.faults_fired.get(kind, 0) + n

    def probe(self, name, n=1):
        self.probes[name] = self.probes.get(name, 0) + n

    def log_event(self, inc, op, path, res, n=0):
        ev = (self.step, inc.task.name if inc else "-", inc.no if inc else 0, op, path, res, n)
        self.log.append(ev)
        # a check-then-act window has just opened (stat said "absent"): scheduling hot spot
        self.hot = (op == "stat" and res == "ENOENT")
        self.hot_path = path
        for ob in self.observers:
            ob(self, ev)
        return ev

    def note_mutation(self, inc, path):
        if self.mutation_hook:
            self.mutation_hook(self, inc, path)

    def digest(self):
        h = hashlib.sha256()
        for ev in self.log:
            h.update(repr(ev).encode())
        for p in sorted(self.files):
            h.update(p.encode())
            h.update(hashlib.sha256(self.files[p]).digest())
        for d in sorted(self.dirs):
            h.update(d.encode())
        return h.hexdigest()

    def snapshot(self):
        return dict(self.files), set(self.dirs)

    # -- harness-side file helpers (no gates) ---------------------------------
    def put(self, path, data):
        if isinstance(data, str):
            data = data.encode("utf-8")
        d = os.path.dirname(path)
        while d and d not in self.dirs and d.startswith(SIMROOT):
            self.dirs.add(d)
            d = os.path.dirname(d)
        self.files[path] = data

    def symlink(self, path, target):
        """(harness API) make `path` a symbolic link to `target`"""
        self.mkdirs(os.path.dirname(path))
        self.links[path] = target

    def resolve_links(self, p, follow_last=True):
        """kernel path resolution: every symlinked component is followed, the last one only if follow_last"""
        for _ in range(40):
            parts = [x for x in p[len(SIMROOT):].split("/") if x]
            cur = SIMROOT
            for i, part in enumerate(parts):
                nxt = cur + "/" + part
                if nxt in self.links and (follow_last or i < len(parts) - 1):
                    tgt = self.links[nxt]
                    if not os.path.isabs(tgt):
                        tgt = os.path.join(cur, tgt)
                    p = os.path.normpath(os.path.join(tgt, *parts[i + 1:]))
                    break
                cur = nxt
            else:
                return p
            if not (p == SIMROOT or p.startswith(SIMROOT + "/")):
                raise Unsupported("a simulated symlink leads out of the simulated root: %s" % p)
        raise OSError(errno.ELOOP, os.strerror(errno.ELOOP), p)

    def mkdirs(self, path):
        while path and path not in self.dirs and path.startswith(SIMROOT):
            self.dirs.add(path)
            path = os.path.dirname(path)

    # -- path routing ------------------------------------------------------
    def route(self, p, follow=True):
        """-> (is_sim, absolute normalised path); symlinks resolved as the kernel would (the last component
        only if `follow`)"""
        if isinstance(p, int):
            return False, p
        p = os.fspath(p)
        if isinstance(p, bytes):
            p = p.decode("utf-8", "surrogateescape")
        inc = self.current
        if not os.path.isabs(p):
            if inc is None:
                return False, p
            p = os.path.join(inc.task.cwd, p)
        p = os.path.normpath(p)
        if p == SIMROOT or p.startswith(SIMROOT + "/"):
            if self.links:
                p = self.resolve_links(p, follow)
            return True, p
        return False, p

    # -- gate: every simulated syscall passes here ---------------------------
    def gate(self, inc, op, path, **info):
        if inc is None:
            return None
        if inc.dead:
            raise SimCrash()
        task = inc.task
        task.pending = (op, path, info)
        task.state = "parked"
        # hand the baton back to the scheduler and wait for our turn
        self.sched_sem.release()
        task.sem.acquire()
        task.state = "running"
        action = task.action
        task.action = None
        self.step += 1
        task.steps += 1
        task.inc_steps += 1
        if action is None:
            return None
        kind = action[0]
        if kind == "crash":
            inc.dead = True
            self.count_fault("crash")
            self.log_event(inc, "CRASH", path, op)
            raise SimCrash()
        if kind == "budget":
            inc.dead = True
            raise StepBudgetExceeded()
        if kind == "errno":
            self.count_fault("errno-%s" % errno.errorcode.get(action[1], action[1]))
            self.log_event(inc, op, path, errno.errorcode.get(action[1], str(action[1])))
            raise OSError(action[1], os.strerror(action[1]), path)
        return action

    def torn_prefix(self, n):
        pages = n // 4096
        opts = [0] + [k * 4096 for k in range(1, pages + 1)]
        if n % 4096:
            opts.append(n)
        k = opts[self.tape.choose(len(opts), "torn-prefix")]
        if 0 < k:
            self.count_fault("torn-write")
            if k < n:
                self.probe("torn_nonempty_prefix")
        return k

    # -- simulated syscalls ------------------------------------------------
    def _enoent(self, path):
        return FileNotFoundError(errno.ENOENT, os.strerror(errno.ENOENT), path)

    def sim_open(self, path, mode, buffering, encoding, errors, newline):
        inc = self.current
        m = set(mode)
        binary = "b" in m
        if encoding is None and not binary:
            encoding = inc.task.locale if inc else "utf-8"
        if "+" in m or "x" in m:
            return self._open_rw(inc, path, m, binary, buffering, encoding, errors, newline)
        if "r" in m:
            action = self.gate(inc, "open-r", path)
            data = None
            eio = None
            if action is not None:
                if action[0] == "content":
                    data = action[1]
                    self.count_fault(action[2])
                elif action[0] == "eio-after":
                    eio = action[1]
            if path in self.dirs:
                self.log_event(inc, "open-r", path, "EISDIR")
                raise IsADirectoryError(errno.EISDIR, os.strerror(errno.EISDIR), path)
            if path not in self.files:
                self.log_event(inc, "open-r", path, "ENOENT")
                raise self._enoent(path)
            if data is None:
                data = self.files[path]
            self.log_event(inc, "open-r", path, "ok", len(data))
            raw = _RRaw(self, inc or _HARNESS_INC, path, data, eio)
            if binary:
                return io.BufferedReader(raw) if buffering != 0 else raw
            return io.TextIOWrapper(io.BufferedReader(raw), encoding=encoding,
                                    errors=errors, newline=newline)
        append = "a" in m
        self.gate(inc, "open-a" if append else "open-w", path)
        if path in self.dirs:
            self.log_event(inc, "open-w", path, "EISDIR")
            raise IsADirectoryError(errno.EISDIR, os.strerror(errno.EISDIR), path)
        if os.path.dirname(path) not in self.dirs:
            self.log_event(inc, "open-w", path, "ENOENT")
            raise self._enoent(path)
        if append:
            self.files.setdefault(path, b"")
        else:
            self.files[path] = b""          # O_TRUNC: durable at once
        self.log_event(inc, "open-a" if append else "open-w", path, "ok")
        self.note_mutation(inc, path)
        raw = _WRaw(self, inc or _HARNESS_INC, path, append)
        if binary:
            return io.BufferedWriter(raw) if buffering != 0 else raw
        return io.TextIOWrapper(io.BufferedWriter(raw), encoding=encoding,
                                errors=errors, newline=newline,
                                write_through=False)

    def _open_rw(self, inc, path, m, binary, buffering, encoding, errors, newline):
        """'r+' (must exist, no truncation), 'w+' (truncate/create), 'a+' (append), 'x'/'x+' (exclusive)"""
        opname = "open-rw" if "r" in m else ("open-a" if "a" in m else "open-w")
        self.gate(inc, opname, path)
        if path in self.dirs:
            self.log_event(inc, opname, path, "EISDIR")
            raise IsADirectoryError(errno.EISDIR, os.strerror(errno.EISDIR), path)
        exists = path in self.files
        if "r" in m and not exists:
            self.log_event(inc, opname, path, "ENOENT")
            raise self._enoent(path)
        if "x" in m and exists:
            self.log_event(inc, opname, path, "EEXIST")
            raise FileExistsError(errno.EEXIST, os.strerror(errno.EEXIST), path)
        if not exists and os.path.dirname(path) not in self.dirs:
            self.log_event(inc, opname, path, "ENOENT")
            raise self._enoent(path)
        if "w" in m or "x" in m:
            self.files[path] = b""
            self.note_mutation(inc, path)
        elif not exists:
            self.files[path] = b""
            self.note_mutation(inc, path)
        self.log_event(inc, opname, path, "ok", len(self.files[path]))
        raw = _RWRaw(self, inc or _HARNESS_INC, path, append="a" in m)
        if "+" not in m:            # plain 'x': write-only
            buf = io.BufferedWriter(raw)
        else:
            buf = io.BufferedRandom(raw)
        if binary:
            return buf if buffering != 0 else raw
        return io.TextIOWrapper(buf, encoding=encoding, errors=errors, newline=newline)

    # -- low-level descriptors (tempfile.mkstemp, os.open/os.fdopen) ---------------------------------
    def sim_os_open(self, path, flags):
        inc = self.current
        acc = flags & (os.O_WRONLY | os.O_RDWR)
        if acc == 0:
            opname = "open-r"
        elif flags & os.O_APPEND:
            opname = "open-a"
        elif flags & os.O_TRUNC or flags & os.O_CREAT:
            opname = "open-w"
        else:
            opname = "open-rw"
        self.gate(inc, opname, path)
        if path in self.dirs:
            if acc == 0:
                # a descriptor on a directory (to fsync it after a rename, or to list it)
                fd = self.next_fd
                self.next_fd += 1
                self.fds[fd] = {"path": path, "flags": flags, "raw": None, "inc": inc, "dir": True}
                self.log_event(inc, "open-dir", path, "ok", fd - 1000000)
                return fd
            self.log_event(inc, opname, path, "EISDIR")
            raise IsADirectoryError(errno.EISDIR, os.strerror(errno.EISDIR), path)
        exists = path in self.files
        if exists and flags & os.O_CREAT and flags & os.O_EXCL:
            self.log_event(inc, opname, path, "EEXIST")
            raise FileExistsError(errno.EEXIST, os.strerror(errno.EEXIST), path)
        if not exists:
            if not flags & os.O_CREAT:
                self.log_event(inc, opname, path, "ENOENT")
                raise self._enoent(path)
            if os.path.dirname(path) not in self.dirs:
                self.log_event(inc, opname, path, "ENOENT")
                raise self._enoent(path)
            self.files[path] = b""
            self.note_mutation(inc, path)
        elif flags & os.O_TRUNC and acc:
            self.files[path] = b""
            self.note_mutation(inc, path)
        fd = self.next_fd
        self.next_fd += 1
        self.fds[fd] = {"path": path, "flags": flags, "raw": None, "inc": inc}
        self.log_event(inc, opname, path, "ok", fd - 1000000)
        return fd

    def fd_raw(self, fd):
        ent = self.fds[fd]
        if ent.get("dir"):
            raise IsADirectoryError(errno.EISDIR, os.strerror(errno.EISDIR), ent["path"])
        if ent["raw"] is None:
            ent["raw"] = _RWRaw(self, ent["inc"] or _HARNESS_INC, ent["path"], append=bool(ent["flags"] & os.O_APPEND))
        return ent["raw"]

    def sim_fd_open(self, fd, mode, buffering, encoding, errors, newline, closefd):
        """builtins.open(<simulated fd>, mode): a file object on the descriptor's file"""
        ent = self.fds[fd]
        raw = self.fd_raw(fd)
        world = self

        class _Owner(io.BufferedRandom):
            def close(self_inner):
                try:
                    super().close()
                finally:
                    if closefd:
                        world.fds.pop(fd, None)
        if "r" in mode and "+" not in mode:
            buf = io.BufferedReader(raw)
        else:
            buf = _Owner(raw)
        if "b" in mode:
            return buf
        if encoding is None:
            encoding = ent["inc"].task.locale if ent["inc"] else "utf-8"
        return io.TextIOWrapper(buf, encoding=encoding, errors=errors, newline=newline)

    def sim_stat(self, path):
        inc = self.current
        self.gate(inc, "stat", path)
        if path in self.dirs:
            self.log_event(inc, "stat", path, "dir")
            return os.stat_result((statmod.S_IFDIR | self.modes.get(path, 0o755), 0, 0, 2, 0, 0, 4096, 0, 0, 0))
        if path in self.files:
            self.log_event(inc, "stat", path, "file")
            return os.stat_result((statmod.S_IFREG | self.modes.get(path, 0o644), 0, 0, 1, 0, 0,
                                   len(self.files[path]), 0, 0, 0))
        self.log_event(inc, "stat", path, "ENOENT")
        raise self._enoent(path)

    def sim_lstat(self, path):
        if path in self.links:
            inc = self.current
            self.gate(inc, "stat", path)
            self.log_event(inc, "stat", path, "link")
            return os.stat_result((statmod.S_IFLNK | 0o777, 0, 0, 1, 0, 0, len(self.links[path]), 0, 0, 0))
        return self.sim_stat(path)

    def sim_mkdir(self, path):
        inc = self.current
        self.gate(inc, "mkdir", path)
        if path in self.dirs or path in self.files:
            self.log_event(inc, "mkdir", path, "EEXIST")
            raise FileExistsError(errno.EEXIST, os.strerror(errno.EEXIST), path)
        if os.path.dirname(path) not in self.dirs:
            self.log_event(inc, "mkdir", path, "ENOENT")
            raise self._enoent(path)
        self.dirs.add(path)
        self.log_event(inc, "mkdir", path, "ok")
        self.note_mutation(inc, path)

    def sim_unlink(self, path):
        inc = self.current
        self.gate(inc, "unlink", path)
        if path in self.links:
            del self.links[path]
            self.log_event(inc, "unlink", path, "ok")
            self.note_mutation(inc, path)
            return
        if path in self.dirs:
            self.log_event(inc, "unlink", path, "EISDIR")
            raise IsADirectoryError(errno.EISDIR, os.strerror(errno.EISDIR), path)
        if path not in self.files:
            self.log_event(inc, "unlink", path, "ENOENT")
            raise self._enoent(path)
        del self.files[path]
        self.modes.pop(path, None)
        self.log_event(inc, "unlink", path, "ok")
        self.note_mutation(inc, path)

    def sim_chmod(self, path, mode):
        inc = self.current
        self.gate(inc, "chmod", path)
        if path not in self.files and path not in self.dirs:
            self.log_event(inc, "chmod", path, "ENOENT")
            raise self._enoent(path)
        self.modes[path] = mode & 0o7777
        self.log_event(inc, "chmod", path, "ok")

    def sim_touch_meta(self, path, what):
        """utime / chown: metadata the simulated file system does not keep"""
        inc = self.current
        self.gate(inc, what, path)
        if path not in self.files and path not in self.dirs:
            self.log_event(inc, what, path, "ENOENT")
            raise self._enoent(path)
        self.log_event(inc, what, path, "ok")

    def sim_truncate_path(self, path, length):
        inc = self.current
        self.gate(inc, "truncate", path)
        if path in self.dirs:
            self.log_event(inc, "truncate", path, "EISDIR")
            raise IsADirectoryError(errno.EISDIR, os.strerror(errno.EISDIR), path)
        if path not in self.files:
            self.log_event(inc, "truncate", path, "ENOENT")
            raise self._enoent(path)
        d = self.files[path]
        self.files[path] = d[:length] + b"\0" * max(0, length - len(d))
        self.log_event(inc, "truncate", path, "ok", length)
        self.note_mutation(inc, path)

    def sim_scandir(self, path):
        names = self.sim_listdir(path)
        pre = path.rstrip("/") + "/"
        return _SimScandir([_SimDirEntry(self, n, pre + n) for n in names])

    def sim_rmdir(self, path):
        inc = self.current
        self.gate(inc, "rmdir", path)
        if path not in self.dirs:
            self.log_event(inc, "rmdir", path, "ENOENT")
            raise self._enoent(path)
        pre = path + "/"
        if any(p.startswith(pre) for p in self.files) or any(d.startswith(pre) for d in self.dirs):
            self.log_event(inc, "rmdir", path, "ENOTEMPTY")
            raise OSError(errno.ENOTEMPTY, os.strerror(errno.ENOTEMPTY), path)
        self.dirs.discard(path)
        self.log_event(inc, "rmdir", path, "ok")
        self.note_mutation(inc, path)

    def sim_rename(self, src, dst):
        inc = self.current
        self.gate(inc, "rename", src, dst=dst)
        if src in self.links:
            self.links[dst] = self.links.pop(src)
            self.files.pop(dst, None)
            self.log_event(inc, "rename", src, "ok:" + dst)
            self.note_mutation(inc, src)
            self.note_mutation(inc, dst)
            return
        if src in self.files:
            if dst in self.dirs:
                self.log_event(inc, "rename", src, "EISDIR")
                raise IsADirectoryError(errno.EISDIR, os.strerror(errno.EISDIR), dst)
            if os.path.dirname(dst) not in self.dirs:
                self.log_event(inc, "rename", src, "ENOENT")
                raise self._enoent(dst)
            self.files[dst] = self.files.pop(src)
            self.links.pop(dst, None)       # renaming over a symlink replaces the link itself
            if src in self.modes:
                self.modes[dst] = self.modes.pop(src)
            else:
                self.modes.pop(dst, None)
            self.log_event(inc, "rename", src, "ok:" + dst)
            self.note_mutation(inc, src)
            self.note_mutation(inc, dst)
            return
        if src in self.dirs:
            raise Unsupported("rename of a simulated directory %s" % src)
        self.log_event(inc, "rename", src, "ENOENT")
        raise self._enoent(src)

    def dir_order(self, names):
        """the order in which a directory lists its entries is the file system's business (hash order, creation
        order, ...): here a permutation that differs between a run and its reference (keyed by the epoch), the same
        on replay"""
        return sorted(names, key=lambda n: hashlib.sha256(("%r/%s" % (self.epoch, n)).encode()).digest())

    def sim_listdir(self, path):
        inc = self.current
        self.gate(inc, "listdir", path)
        if path not in self.dirs:
            self.log_event(inc, "listdir", path, "ENOENT")
            raise self._enoent(path)
        pre = path.rstrip("/") + "/"
        names = set()
        for p in list(self.files) + list(self.dirs) + list(self.links):
            if p.startswith(pre):
                names.add(p[len(pre):].split("/", 1)[0])
        self.log_event(inc, "listdir", path, "ok", len(names))
        return self.dir_order(names)

    # -- scheduler ------------------------------------------------------------
    def add_task(self, task):
        self.tasks.append(task)
        return task

    def _thread_main(self, task, inc):
        # wait for the first release
        task.sem.acquire()
        task.state = "running"
        self.step += 1
        task.steps += 1
        task.inc_steps += 1
        random.seed("%s/%d" % (task.name, inc.no))      # a fresh process would seed from the OS: here, from its identity
        try:
            if task.action is not None and task.action[0] == "crash":
                task.action = None
                inc.dead = True
                self.count_fault("crash")
                self.log_event(inc, "CRASH", "-", "start")
                raise SimCrash()
            task.action = None
            task.result = task.fn(task)
            task.state = "done"
        except SimCrash:
            inc.dead = True
            task.state = "crashed"
        except StepBudgetExceeded:
            inc.dead = True
            task.state = "budget"
        except Unsupported as e:
            inc.dead = True
            task.state = "failed"
            task.error = ("Unsupported", str(e))
            self.unsupported = str(e)
        except SystemExit as e:
            code = e.code if isinstance(e.code, int) else (0 if e.code is None else 1)
            if code == 0:
                task.state = "done"
            else:
                task.state = "failed"
                task.error = ("SystemExit", str(e.code))
        except BaseException as e:      # noqa: the task's own failure is data
            task.state = "failed"
            task.error = (type(e).__name__, str(e)[:300])
            task.exc = e
        finally:
            inc.dead = True
            self.log_event(inc, "EXIT", "-", task.state)
            self.sched_sem.release()

    def _spawn(self, task):
        task.incarnations += 1
        inc = Incarnation(task, task.incarnations)
        task.inc = inc
        task.state = "parked"
        task.inc_steps = 0
        task.pending = ("start", "-", {})
        task.error = None
        task.exc = None
        task.result = None
        task.sem = threading.Semaphore(0)
        th = threading.Thread(target=self._thread_main, args=(task, inc), daemon=True,
                              name="sim-%s-%d" % (task.name, inc.no))
        task.thread = th
        th.start()

    def run(self, restart_crashed=True, max_restarts=3, switch_p=0.3, hot_switch_p=0.5,
            chase_p=0.35):
        """Run all tasks to completion under the tape-driven scheduler."""
        old_stack = threading.stack_size()
        threading.stack_size(128 * 1024 * 1024)
        try:
            for t in self.tasks:
                self._spawn(t)
            cur = None
            while True:
                runnable = sorted((t for t in self.tasks if t.state == "parked"),
                                  key=lambda t: t.name)
                if not runnable:
                    again = [t for t in self.tasks
                             if t.state == "crashed" and restart_crashed
                             and t.incarnations <= max_restarts]
                    if not again:
                        break
                    for t in sorted(again, key=lambda t: t.name):
                        self.probe("task_restarted")
                        self._spawn(t)
                    continue
                # restart crashed tasks lazily too: a crashed task may come back while
                # others are still running (make re-invoked) -- tape decides
                dead = sorted((t for t in self.tasks if t.state == "crashed"
                               and restart_crashed and t.incarnations <= max_restarts),
                              key=lambda t: t.name)
                if dead and self.tape.bool(0.25, "restart-now"):
                    t = dead[0]
                    self.probe("task_restarted_midway")
                    self._spawn(t)
                    continue
                # pick who runs: 0 = keep the current task
                if self.chase is not None:
                    # race-directed scheduling: task `home` sits in a check-then-act window on
                    # `path` (its stat just said "absent"); `runner` is driven until it creates that
                    # very path (or ends, or the budget is spent), then `home` resumes.
                    ch = self.chase
                    ch["budget"] -= 1
                    if ch["runner"] in runnable and not ch["done"] and ch["budget"] > 0:
                        cur = ch["runner"]
                        if cur.pending[0] == "mkdir" and cur.pending[1] == ch["path"]:
                            ch["done"] = True
                    else:
                        self.chase = None
                        if ch["done"]:
                            self.probe("chase_completed")
                        if ch["home"] in runnable:
                            cur = ch["home"]
                        elif cur not in runnable:
                            cur = runnable[self.tape.choose(len(runnable), "pick")]
                elif cur in runnable and len(runnable) > 1:
                    if self.hot and self.tape.bool(chase_p, "chase"):
                        others = [t for t in runnable if t is not cur]
                        runner = others[self.tape.choose(len(others), "chase-runner")]
                        self.chase = {"path": self.hot_path, "home": cur, "runner": runner,
                                      "done": False, "budget": 400}
                        cur = runner
                        self.switches += 1
                        if cur.pending[0] == "mkdir" and cur.pending[1] == self.chase["path"]:
                            self.chase["done"] = True
                    elif self.tape.bool(hot_switch_p if self.hot else switch_p, "switch"):
                        others = [t for t in runnable if t is not cur]
                        cur = others[self.tape.choose(len(others), "switch-to")]
                        self.switches += 1
                elif cur not in runnable:
                    cur = runnable[self.tape.choose(len(runnable), "pick")]
                task = cur
                op, path, info = task.pending
                action = None
                if self.step >= self.max_steps:
                    action = ("budget",)
                elif self.fault_plan is not None:
                    action = self.fault_plan(self, task, op, path, info)
                self.schedule.append((task.name, op, path))
                task.action = action
                self.current = task.inc
                sys.argv = task.argv
                task.sem.release()
                self.sched_sem.acquire()
                self.current = None
            return self
        finally:
            threading.stack_size(old_stack)
            self.current = None


_HARNESS_INC = Incarnation(Task("-harness-", None), 0)


# ---------------------------------------------------------------------------
# seams
# ---------------------------------------------------------------------------
def _w():
    return WORLD


def _patched_open(file, mode="r", buffering=-1, encoding=None, errors=None, newline=None,
                  closefd=True, opener=None):
    w = WORLD
    if w is None:
        return _real["open"](file, mode, buffering, encoding, errors, newline, closefd, opener)
    if encoding == "locale":
        # what pathlib's read_text()/write_text() and io.text_encoding() pass for "no encoding given"
        encoding = None
    if isinstance(file, int) and file in w.fds:
        return w.sim_fd_open(file, mode, buffering, encoding, errors, newline, closefd)
    is_sim, p = w.route(file)
    if is_sim:
        if opener is not None:
            # open(path, mode, opener=f): f(path, flags) -> descriptor (tempfile.NamedTemporaryFile does this)
            flags = os.O_RDWR if "+" in mode else (os.O_RDONLY if "r" in mode else os.O_WRONLY)
            if "w" in mode:
                flags |= os.O_CREAT | os.O_TRUNC
            if "a" in mode:
                flags |= os.O_CREAT | os.O_APPEND
            if "x" in mode:
                flags |= os.O_CREAT | os.O_EXCL
            fd = opener(p, flags)
            if fd not in w.fds:
                raise Unsupported("open(opener=...) returned a real descriptor for simulated path %s" % p)
            return w.sim_fd_open(fd, mode, buffering, encoding, errors, newline, True)
        return w.sim_open(p, mode, buffering, encoding, errors, newline)
    inc = w.current
    if inc is not None and isinstance(p, str):
        if p in w.virtual_real and not _real["exists"](p):
            data = w.virtual_real[p]
            w.log_event(inc, "open-real-r", p, "virtual", len(data))
            if "b" in mode:
                return io.BytesIO(data)
            return io.TextIOWrapper(io.BytesIO(data), encoding=encoding or inc.task.locale,
                                    errors=errors, newline=newline)
        kind = "open-real-r" if ("r" in mode and "+" not in mode) else "open-real-w"
        w.log_event(inc, kind, p, "pass")
        if encoding is None and "b" not in mode:
            encoding = inc.task.locale
    return _real["open"](file, mode, buffering, encoding, errors, newline, closefd, opener)


def _mk1(name, simname):
    nofollow = name in ("lstat", "unlink", "remove", "rmdir")

    def f(path, *a, **k):
        w = WORLD
        if w is not None and k.get("dir_fd") is None and not isinstance(path, int):
            # (fd-relative calls can only concern the real file system: nothing simulated has a descriptor)
            is_sim, p = w.route(path, follow=not (nofollow or k.get("follow_symlinks") is False))
            if is_sim and name == "stat" and k.get("follow_symlinks") is False:
                return w.sim_lstat(p)
            if is_sim:
                return getattr(w, simname)(p)
            if w.current is not None and name in ("mkdir", "unlink", "remove", "rmdir"):
                w.log_event(w.current, name + "-real", str(p), "pass")
        return _real[name](path, *a, **k)
    f.__name__ = name
    return f


def _patched_rename(src, dst, *a, **k):
    w = WORLD
    if w is not None:
        s1, p1 = w.route(src, follow=False)
        s2, p2 = w.route(dst, follow=False)
        if s1 and s2:
            return w.sim_rename(p1, p2)
        if s1 or s2:
            raise Unsupported("rename across the simulated/real boundary")
        if w.current is not None:
            w.log_event(w.current, "rename-real", str(p1), "pass")
    return _real["rename"](src, dst, *a, **k)


def _patched_getcwd():
    w = WORLD
    if w is not None and w.current is not None:
        return w.current.task.cwd
    return _real["getcwd"]()


def _patched_chdir(path):
    w = WORLD
    if w is not None and w.current is not None:
        is_sim, p = w.route(path)
        if not is_sim:
            raise Unsupported("chdir outside the simulated root")
        if p not in w.dirs:
            raise FileNotFoundError(errno.ENOENT, os.strerror(errno.ENOENT), p)
        w.current.task.cwd = p
        return None
    return _real["chdir"](path)


def _patched_os_open(path, flags, mode=0o777, *a, **k):
    w = WORLD
    if w is not None and k.get("dir_fd") is None:
        is_sim, p = w.route(path)
        if is_sim:
            return w.sim_os_open(p, flags)
    return _real["os_open"](path, flags, mode, *a, **k)


def _patched_os_close(fd):
    w = WORLD
    if w is not None and fd in w.fds:
        ent = w.fds.pop(fd)
        if ent["raw"] is not None and not ent["raw"].closed:
            ent["raw"].close()
        return None
    return _real["os_close"](fd)


def _patched_os_write(fd, data):
    w = WORLD
    if w is not None and fd in w.fds:
        return w.fd_raw(fd).write(data)
    return _real["os_write"](fd, data)


def _patched_os_read(fd, n):
    w = WORLD
    if w is not None and fd in w.fds:
        buf = bytearray(n)
        k = w.fd_raw(fd).readinto(buf)
        return bytes(buf[:k])
    return _real["os_read"](fd, n)


def _patched_os_fsync(fd):
    w = WORLD
    if w is not None and fd in w.fds:
        w.log_event(w.current, "fsync", w.fds[fd]["path"], "ok")
        return None
    return _real["os_fsync"](fd)


def _patched_os_fstat(fd, *a, **k):
    w = WORLD
    if w is not None and fd in w.fds:
        pth = w.fds[fd]["path"]
        if w.fds[fd].get("dir"):
            return os.stat_result((statmod.S_IFDIR | w.modes.get(pth, 0o755), 0, 0, 2, 0, 0, 4096, 0, 0, 0))
        return os.stat_result((statmod.S_IFREG | w.modes.get(pth, 0o644), 0, 0, 1, 0, 0,
                               len(w.files.get(pth, b"")), 0, 0, 0))
    return _real["os_fstat"](fd, *a, **k)


# -- sources of nondeterminism that a "process" (task) may consult ---------------------------------------
def _patched_getpid():
    w = WORLD
    if w is not None and w.current is not None:
        t = w.current.task
        return 40000 + 64 * (w.tasks.index(t) if t in w.tasks else 0) + w.current.no
    return _real["getpid"]()


def _patched_urandom(n):
    w = WORLD
    if w is not None and w.current is not None:
        inc = w.current
        out = b""
        while len(out) < n:
            inc.entropy += 1
            out += hashlib.sha256(("%s/%d/%d" % (inc.task.name, inc.no, inc.entropy)).encode()).digest()
        return out[:n]
    return _real["urandom"](n)


# the simulated wall clock starts at EPOCH (a reference run in a pristine fork moves it: whatever a task writes must
# not depend on the date, the time of day or the time zone's idea of either)
EPOCH = 1700000000.0
REFERENCE_EPOCH_SHIFT = 397 * 86400 + 4033.0      # another year, month, day, weekday, hour, minute and second


def reference_clock():
    """called by reference computations (each in its own pristine fork): the same work, on another date"""
    global EPOCH
    EPOCH = 1700000000.0 + REFERENCE_EPOCH_SHIFT


def sim_now():
    """simulated wall-clock time, or None outside a task"""
    w = WORLD
    if w is not None and w.current is not None:
        return w.epoch + w.step * 0.001        # simulated clock: one millisecond per gate
    return None


def _patched_time():
    t = sim_now()
    return t if t is not None else _real["time"]()


def _no_arg_time_fn(name):
    """time.localtime() / gmtime() / ctime() / asctime() / strftime(fmt) without a time read the C clock"""
    real = getattr(time, name)

    def f(*a):
        t = sim_now()
        if t is not None:
            if name in ("localtime", "gmtime", "ctime") and (not a or a[0] is None):
                return real(t)
            if name == "asctime" and not a:
                return real(_real["localtime"](t))
            if name == "strftime" and len(a) == 1:
                return real(a[0], _real["localtime"](t))
        return real(*a)
    f.__name__ = name
    return f


def _install_datetime_seam():
    import datetime as _dt
    if getattr(_dt.datetime, "_verif_sim", False):
        return
    real_dt, real_date = _dt.datetime, _dt.date

    class datetime(real_dt):
        _verif_sim = True

        @classmethod
        def now(cls, tz=None):
            t = sim_now()
            return cls.fromtimestamp(t, tz) if t is not None else super().now(tz)

        @classmethod
        def utcnow(cls):
            t = sim_now()
            return cls.utcfromtimestamp(t) if t is not None else super().utcnow()

        @classmethod
        def today(cls):
            t = sim_now()
            return cls.fromtimestamp(t) if t is not None else super().today()

    class date(real_date):
        _verif_sim = True

        @classmethod
        def today(cls):
            t = sim_now()
            return cls.fromtimestamp(t) if t is not None else super().today()

    for c in (datetime, date):
        c.__module__ = "datetime"
        c.__qualname__ = c.__name__
    _dt.datetime, _dt.date = datetime, date


def _patched_time_ns():
    w = WORLD
    if w is not None and w.current is not None:
        return int((w.epoch + w.step * 0.001) * 1e9)
    return _real["time_ns"]()


def _sim_clock(name, scale):
    def clock():
        w = WORLD
        if w is not None and w.current is not None:
            v = 5000.0 + w.step * 0.001
            return int(v * 1e9) if scale == "ns" else v
        return _real[name]()
    return clock


class _SimTempNames:
    """replacement for tempfile._RandomNameSequence: names are a function of (task, incarnation, counter)"""

    def __iter__(self):
        return self

    def __next__(self):
        w = WORLD
        if w is not None and w.current is not None:
            inc = w.current
            inc.entropy += 1
            return hashlib.sha256(("%s/%d/%d" % (inc.task.name, inc.no, inc.entropy)).encode()).hexdigest()[:8]
        return "%08x" % random.getrandbits(32)


def _patched_access(path, mode, *a, **k):
    w = WORLD
    if w is not None:
        is_sim, p = w.route(path)
        if is_sim:
            try:
                w.sim_stat(p)
                return True
            except OSError:
                return False
    return _real["access"](path, mode, *a, **k)


class _SimDirEntry:
    def __init__(self, w, name, path):
        self._w, self.name, self.path = w, name, path

    def _real(self, follow):
        if follow and self.path in self._w.links:
            try:
                return self._w.resolve_links(self.path)
            except OSError:
                return None
        return self.path

    def is_dir(self, follow_symlinks=True):
        return self._real(follow_symlinks) in self._w.dirs

    def is_file(self, follow_symlinks=True):
        return self._real(follow_symlinks) in self._w.files

    def is_symlink(self):
        return self.path in self._w.links

    def is_junction(self):
        return False

    def stat(self, follow_symlinks=True):
        return self._w.sim_stat(self.path)

    def inode(self):
        return 0

    def __fspath__(self):
        return self.path

    def __repr__(self):
        return "<SimDirEntry %r>" % self.name


class _SimScandir:
    def __init__(self, entries):
        self._it = iter(entries)

    def __iter__(self):
        return self

    def __next__(self):
        return next(self._it)

    def __enter__(self):
        return self

    def __exit__(self, *a):
        return False

    def close(self):
        pass


def _patched_scandir(path=".", *a, **k):
    w = WORLD
    if w is not None and not isinstance(path, int):
        is_sim, p = w.route(path)
        if is_sim:
            return w.sim_scandir(p)
    return _real["scandir"](path, *a, **k)


def _mk_meta(name, handler):
    """os functions on a path that the simulated file system answers itself (or refuses loudly): nothing that
    names a simulated path may fall through to the real file system"""
    def f(path, *a, **k):
        w = WORLD
        if w is not None and k.get("dir_fd") is None and not isinstance(path, int):
            is_sim, p = w.route(path, follow=name not in ("readlink", "lchmod", "lchown"))
            if is_sim:
                return handler(w, p, *a, **k)
        return _real[name](path, *a, **k)
    f.__name__ = name
    return f


def _refuse(name):
    def h(w, p, *a, **k):
        raise Unsupported("os.%s on simulated path %s" % (name, p))
    return h


def _sim_readlink(w, p, *a, **k):
    if p in w.links:
        return w.links[p]
    w.sim_stat(p)
    raise OSError(errno.EINVAL, os.strerror(errno.EINVAL), p)


def install_seams():
    """Rebind the process-wide I/O entry points (idempotent)."""
    if _real:
        return
    _real["open"] = builtins.open
    _real["exists"] = os.path.exists
    for n in ("stat", "lstat", "mkdir", "unlink", "remove", "rmdir", "listdir"):
        _real[n] = getattr(os, n)
    _real["rename"] = os.rename
    _real["replace"] = os.replace
    _real["getcwd"] = os.getcwd
    _real["chdir"] = os.chdir
    _real["os_open"] = os.open
    _real["access"] = os.access
    _real["scandir"] = os.scandir
    for n, f in (("os_close", os.close), ("os_write", os.write), ("os_read", os.read), ("os_fsync", os.fsync),
                 ("os_fstat", os.fstat), ("getpid", os.getpid), ("urandom", os.urandom), ("time", time.time),
                 ("time_ns", time.time_ns)):
        _real[n] = f
    real_stat = os.stat

    def exists_real(p):
        try:
            real_stat(p)
            return True
        except OSError:
            return False
    _real["exists"] = exists_real

    builtins.open = _patched_open
    io.open = _patched_open
    os.stat = _mk1("stat", "sim_stat")
    os.lstat = _mk1("lstat", "sim_lstat")
    os.mkdir = _mk1("mkdir", "sim_mkdir")
    os.unlink = _mk1("unlink", "sim_unlink")
    os.remove = _mk1("remove", "sim_unlink")
    os.rmdir = _mk1("rmdir", "sim_rmdir")
    os.listdir = _mk1("listdir", "sim_listdir")
    os.rename = _patched_rename
    os.replace = _patched_rename
    os.getcwd = _patched_getcwd
    os.chdir = _patched_chdir
    os.open = _patched_os_open
    os.access = _patched_access
    os.scandir = _patched_scandir
    metas = {"chmod": lambda w, p, mode, *a, **k: w.sim_chmod(p, mode),
             "lchmod": lambda w, p, mode, *a, **k: w.sim_chmod(p, mode),
             "utime": lambda w, p, *a, **k: w.sim_touch_meta(p, "utime"),
             "chown": lambda w, p, *a, **k: w.sim_touch_meta(p, "chown"),
             "lchown": lambda w, p, *a, **k: w.sim_touch_meta(p, "chown"),
             "truncate": lambda w, p, length, *a, **k: w.sim_truncate_path(p, length),
             "readlink": _sim_readlink,
             "listxattr": lambda w, p=None, *a, **k: (w.sim_stat(p), [])[1],
             "symlink": _refuse("symlink"), "link": _refuse("link"), "mkfifo": _refuse("mkfifo"),
             "statvfs": _refuse("statvfs"), "chflags": _refuse("chflags")}
    for name, handler in metas.items():
        if hasattr(os, name):
            _real[name] = getattr(os, name)
            setattr(os, name, _mk_meta(name, handler))
    os.close = _patched_os_close
    os.write = _patched_os_write
    os.read = _patched_os_read
    os.fsync = _patched_os_fsync
    os.fstat = _patched_os_fstat
    os.getpid = _patched_getpid
    os.urandom = _patched_urandom
    # random.SystemRandom / secrets read the kernel through a name bound at import time
    random._urandom = _patched_urandom
    time.time = _patched_time
    time.time_ns = _patched_time_ns
    for name in ("localtime", "gmtime", "ctime", "asctime", "strftime"):
        _real[name] = getattr(time, name)
    for name in ("localtime", "gmtime", "ctime", "asctime", "strftime"):
        setattr(time, name, _no_arg_time_fn(name))
    _install_datetime_seam()
    for name in ("monotonic", "perf_counter", "process_time"):
        for suffix, scale in (("", "s"), ("_ns", "ns")):
            _real[name + suffix] = getattr(time, name + suffix)
            setattr(time, name + suffix, _sim_clock(name + suffix, scale))
    tempfile._name_sequence = _SimTempNames()
    # the locale's encoding, asked for explicitly, is the simulated process's
    import locale as _locale

    def _task_encoding(name):
        real = getattr(_locale, name)

        def f(*a, **k):
            w = WORLD
            if w is not None and w.current is not None:
                return {"utf-8": "UTF-8", "ascii": "ANSI_X3.4-1968", "latin-1": "ISO-8859-1"}.get(
                    w.current.task.locale, w.current.task.locale)
            return real(*a, **k)
        return f
    for name in ("getpreferredencoding", "getencoding"):
        if hasattr(_locale, name):
            setattr(_locale, name, _task_encoding(name))
    try:
        import uuid
        uuid._generate_time_safe = None       # uuid1(): the Python path (simulated clock), not libuuid
        uuid._UuidCreate = None
    except Exception:
        pass


def set_world(w):
    global WORLD
    WORLD = w
    if w is not None:
        # the process-wide generator behind random.random()/choice()/... : what a task draws from it is
        # then a function of the tape (which decides the interleaving), like everything else
        random.seed(0x5EED)


# ---------------------------------------------------------------------------
# parser step clock (wraps the dependency, not /repo)
# ---------------------------------------------------------------------------
_pp_installed = False


def install_parse_counter():
    global _pp_installed
    if _pp_installed:
        return
    import pyparsing
    orig = pyparsing.ParserElement._parseNoCache

    def counted(self, instring, loc, doActions=True, callPreParse=True):
        w = WORLD
        if w is not None:
            w.parse_steps += 1
            if w.parse_step_budget is not None and w.parse_steps > w.parse_step_budget:
                raise StepBudgetExceeded()
        return orig(self, instring, loc, doActions, callPreParse)

    pyparsing.ParserElement._parseNoCache = counted
    _pp_installed = True
