"""Generic tape minimiser (parallel).

Because every decision of a run comes from the tape and 0 always means "the
simplest choice", shrinking the tape shrinks everything at once: generated
declarations, tasks, context switches, faults, history steps.

Fixed-order and deterministic: (1) delete aligned blocks (ddmin style, halving
block sizes), (2) zero single draws, (3) lower single draws.  Each round's
candidates are evaluated in parallel (fresh forks); among the candidates that
reproduce the *same violation signature* the one with the shortest consumed tape
(ties: lowest index) is accepted, so the outcome does not depend on completion
order.
"""
import time


def _strip(v):
    v = list(v)
    while v and v[-1] == 0:
        v.pop()
    return v


def minimise(values, test_many, want_sig, max_s=90.0, max_cands_per_round=48):
    """values: list[int].
    test_many(list_of_candidate_tapes) -> list of (signature | None, consumed_record | None)
    Returns (best_values, candidates_evaluated)."""
    start = time.time()
    evaluated = [0]

    def out_of_budget():
        return time.time() - start > max_s

    def canon(cand, norm):
        cand = _strip(cand)
        if norm is not None:
            norm = _strip(norm)
            if len(norm) <= len(cand):
                return norm
        return cand

    def round_(cands):
        """evaluate; return the best accepted canonical tape or None"""
        if not cands or out_of_budget():
            return None
        if len(cands) > max_cands_per_round:
            step = len(cands) / float(max_cands_per_round)
            cands = [cands[int(i * step)] for i in range(max_cands_per_round)]
        evaluated[0] += len(cands)
        res = test_many(cands)
        ok = []
        for i, (c, (sig, norm)) in enumerate(zip(cands, res)):
            if sig == want_sig:
                cc = canon(c, norm)
                ok.append((len(cc), sum(cc), i, cc))
        if not ok:
            return None
        ok.sort(key=lambda t: (t[0], t[1], t[2]))
        return ok[0][3]

    best = _strip(values)
    # (1) block deletion
    size = max(1, len(best) // 2)
    while size >= 1 and not out_of_budget():
        while not out_of_budget():
            cands = [best[:i] + best[i + size:] for i in range(0, len(best), size)]
            cands = [c for c in cands if len(c) < len(best)]
            got = round_(cands)
            if got is not None and len(got) < len(best):
                best = got
                if size > len(best):
                    break
            else:
                break
        size //= 2
    # (2) zero single draws (all nonzero positions in one parallel round, repeated)
    for _ in range(6):
        if out_of_budget():
            break
        idx = [i for i, v in enumerate(best) if v != 0]
        cands = [best[:i] + [0] + best[i + 1:] for i in idx]
        got = round_(cands)
        if got is None or (len(got), sum(got)) >= (len(best), sum(best)):
            break
        best = got
    # (3) lower single draws
    for _ in range(4):
        if out_of_budget():
            break
        cands = []
        for i, v in enumerate(best):
            if v > 1:
                cands.append(best[:i] + [v // 2] + best[i + 1:])
                cands.append(best[:i] + [v - 1] + best[i + 1:])
        got = round_(cands)
        if got is None or (len(got), sum(got)) >= (len(best), sum(best)):
            break
        best = got
    return _strip(best), evaluated[0]
