"""Generic tape minimiser.

Because every decision of a run comes from the tape and 0 always means "the
simplest choice", shrinking the tape shrinks everything at once: generated
declarations, tasks, context switches, faults, history steps.

Fixed-order, deterministic:  (1) delete aligned blocks (ddmin style, halving block
sizes), (2) zero single draws, (3) lower single draws.  A candidate is accepted
only if test(candidate) returns the *same signature* as the original violation.
"""
import time


def _strip(v):
    v = list(v)
    while v and v[-1] == 0:
        v.pop()
    return v


def minimise(values, test, want_sig, max_runs=300, max_s=120.0):
    """values: list[int]; test(values) -> (signature | None, consumed_record).
    consumed_record is the list of draws the candidate run actually made (so that
    out-of-range values and unread tails are canonicalised).
    Returns (best_values, runs_used)."""
    start = time.time()
    runs = [0]

    def out_of_budget():
        return runs[0] >= max_runs or time.time() - start > max_s

    def attempt(cand):
        """-> canonical accepted tape or None"""
        if out_of_budget():
            return None
        runs[0] += 1
        sig, norm = test(cand)
        if sig != want_sig:
            return None
        cand = _strip(cand)
        if norm is not None:
            norm = _strip(norm)
            if len(norm) <= len(cand):
                return norm
        return cand

    best = _strip(values)
    # (1) block deletion
    size = max(1, len(best) // 2)
    while size >= 1 and not out_of_budget():
        i = 0
        while i < len(best) and not out_of_budget():
            cand = best[:i] + best[i + size:]
            got = attempt(cand)
            if got is not None and len(got) < len(best):
                best = got
            else:
                i += size
        size //= 2
    # (2) zero single draws, then (3) lower them by bisection
    i = 0
    while i < len(best) and not out_of_budget():
        if best[i] != 0:
            got = attempt(best[:i] + [0] + best[i + 1:])
            if got is not None:
                best = got
                continue
            v, lo = best[i], 1
            while lo < v and not out_of_budget():
                mid = (lo + v) // 2
                got = attempt(best[:i] + [mid] + best[i + 1:])
                if got is not None and len(got) > i and got[i] == mid:
                    best, v = got, mid
                else:
                    lo = mid + 1
        i += 1
    return _strip(best), runs[0]
