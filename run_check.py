#!/venv/bin/python
"""Entry point:  run_check.py <ID> --tier quick|thorough
                 run_check.py <ID> --replay <file>
                 run_check.py <ID> --digests <batch> <i,j,k>       (self-test helper)

Always imports gtwrap from /repo's *current working tree* and re-executes itself
with PYTHONHASHSEED=0 so that the harness itself is hash-stable (the code under
test is additionally exercised under other hash seeds by the checks).
Exit: 0 held / 1 VIOLATION / 2 harness error or timeout.
"""
import importlib
import os
import sys

VERIF = os.path.dirname(os.path.abspath(__file__))
REPO = os.environ.get("VERIF_REPO", "/repo")


def main():
    if os.environ.get("PYTHONHASHSEED") is None and not os.environ.get("VERIF_NO_REEXEC"):
        env = dict(os.environ)
        env["PYTHONHASHSEED"] = "0"
        os.execve(sys.executable, [sys.executable] + sys.argv, env)
    sys.path.insert(0, VERIF)
    sys.path.insert(0, REPO)
    sys.dont_write_bytecode = True
    import faulthandler
    faulthandler.enable()
    args = sys.argv[1:]
    if not args:
        print(__doc__)
        return 2
    prop = args[0].upper()
    check = importlib.import_module("checks.%s" % prop.lower())
    from sim import driver
    base_seed = int(os.environ.get("VERIF_SEED", "0") or 0)
    if "--replay" in args:
        return driver.replay_file(check, args[args.index("--replay") + 1])
    if "--seq-digest" in args:
        check.seq_digest_main()
        return 0
    if "--digests" in args:
        i = args.index("--digests")
        driver.print_digests(check, args[i + 1], [int(x) for x in args[i + 2].split(",")], base_seed)
        return 0
    tier = os.environ.get("VERIF_TIER", "quick")
    if "--tier" in args:
        tier = args[args.index("--tier") + 1]
    # global wall guard: a hang is a harness problem, never exit 0 and never a verdict
    import threading
    import time

    def watchdog(cap=int(os.environ.get("VERIF_WALL_CAP", "5400"))):
        time.sleep(cap)
        sys.stdout.write("HARNESS-TIMEOUT: wall cap of %d s exceeded\n" % cap)
        sys.stdout.flush()
        faulthandler.dump_traceback()
        os._exit(2)
    threading.Thread(target=watchdog, daemon=True).start()
    return driver.main(check, tier, base_seed)


if __name__ == "__main__":
    sys.stdout.reconfigure(line_buffering=True)
    sys.exit(main())
